#!/usr/bin/env python3
"""Regenerates /verif/MANIFEST.json from the table below (kept next to the checks so it cannot drift)."""
import json, os
V = os.path.dirname(os.path.dirname(os.path.abspath(__file__)))
R = "engine R (engine/): the crate's real generic View<T> code instantiated at a term-building scalar Sym, all comparison outcomes explored by re-execution, z3 decides every branch and obligation over the reals; solver models replayed exactly and natively at f64 before a VIOLATION is printed"
TRUST = "rustc/cargo; z3 4.8.12; the Sym scalar shim (engine/src/sym.rs, validated against native f64 by `bin/check selftest`); the reference oracles in engine/src/props/*.rs (written from the property statements / cited papers); real arithmetic, not IEEE: rounding, overflow, -0.0 are outside the verdict"
checks = {
 "C02": dict(tech="symbolic execution of the real generic code (T=Sym) + SMT (z3 QF_NRA/LRA) equivalence against batch reference definitions, all comparison paths, N<=3 (quick) / N<=5 (thorough), k=2N+2",
             text="Bounded model checking of the real code: for every window length in the bound and every real-valued input stream of length 2N+2 (inputs are solver variables, every feasible comparison outcome is a path), each reported value equals the batch definition over exactly the last min(t,N) values. Stronger than any sampling inside the bound; says nothing beyond it or about f64 rounding.", ref="DESIGN.md §4 C02"),
}
not_applicable = {
 "C16": "bound on accumulated IEEE-754 rounding error over 1e4..1e6-step streams: needs floating-point proofs; every installed back end (CBMC/Kani f64, z3/cvc5 QF_FP, rounding-aware reals in NRA) was probed on the smallest instance (Sma N=2, 5 values) and does not finish beyond toy float widths — see DESIGN.md §8",
}
pending = {}
for i in range(1, 19):
    pid = "C%02d" % i
    if pid not in checks and pid not in not_applicable:
        pending[pid] = "check not built yet (work in progress; see DESIGN.md §4 for the plan)"
m = {
 "version": 1,
 "setup_cmd": "bin/check setup",
 "hooks": {"guard": "--cfg sliding_features_verif", "enable": "none needed: every view is generic over T: num::Float, so the harness crate instantiates the unmodified source at its own scalar type (path dependency on /repo)", "baseline_off_cmd": "cd /repo && cargo test --workspace --no-fail-fast --offline", "source_commits": [], "add_only": True},
 "engines": [{"name": "symreal", "path": "engine/", "serves_properties": sorted(checks), "kind_free_text": R}],
 "checks": [
   {"property_id": pid, "quick_cmd": f"bin/check {pid} quick", "thorough_cmd": f"bin/check {pid} thorough", "evidence_file": f"evidence/{pid}.json",
    "replay_cmd_template": "bin/check replay {path}", "engine": "symreal",
    "level_claimed": {"category": "model_checking", "text": c["text"], "design_ref": c["ref"]},
    "level_note": c.get("note", TRUST), "technique": c["tech"]} for pid, c in sorted(checks.items())],
 "not_applicable": [{"property_id": k, "reason": v} for k, v in sorted({**not_applicable, **pending}.items())],
 "notes": "Exit codes: 0 held on everything explored (KNOWN-FINDING lines allowed), 1 VIOLATION (replayed exactly before being printed), 2 inconclusive (solver unknown / model did not replay / harness does not compile). Fix commits in /repo are listed in known_findings.json under 'fixed'.",
}
json.dump(m, open(os.path.join(V, "MANIFEST.json"), "w"), indent=1)
print("MANIFEST.json written:", len(m["checks"]), "checks,", len(m["not_applicable"]), "not applicable")
