#!/usr/bin/env python3
"""Regenerates /verif/MANIFEST.json from the table below (kept next to the checks so it cannot drift)."""
import json, os
V = os.path.dirname(os.path.dirname(os.path.abspath(__file__)))
R = "engine R (engine/): the crate's real generic View<T> code instantiated at a term-building scalar Sym, all comparison outcomes explored by re-execution, z3 decides every branch and obligation over the reals; solver models replayed exactly and natively at f64 before a VIOLATION is printed"
TRUST = "rustc/cargo; z3 4.8.12; the Sym scalar shim (engine/src/sym.rs, validated against native f64 by `bin/check selftest`); the reference oracles in engine/src/props/*.rs (written from the property statements / cited papers); real arithmetic, not IEEE: rounding, overflow, -0.0 are outside the verdict"
def C(tech, text, ref): return dict(tech=tech, text=text, ref=ref)
SYM = "symbolic execution of the real generic code at T=Sym + SMT (z3, QF_LRA / QF_NRA via nlsat): "
checks = {
 "C02": C(SYM + "equivalence against batch reference definitions on every comparison path; N<=3 quick / N<=5 thorough, k=2N+2",
          "Bounded model checking of the real code: for every window length in the bound and every real-valued input stream of length 2N+2 (inputs are solver variables, every feasible comparison outcome is a path), each reported value equals the batch definition over exactly the last min(t,N) values. Stronger than any sampling inside the bound; says nothing beyond it or about f64 rounding.", "DESIGN.md §4 C02"),
 "C04": C(SYM + "hull / constant / monotone / affine-commutation / recurrence / kernel-weight obligations with symbolic a, b, c, increments; N<=3 quick / N<=6 thorough",
          "Bounded model checking: for all real input streams within the bound, and all real a>0, b, c, the three moving averages stay in the hull of what they average, reproduce constants, are monotone, commute with a*x+b; Ema equals its recurrence on every path (including state==0), Alma equals the Gaussian-kernel mean with independently computed weights.", "DESIGN.md §4 C04"),
 "C05": C(SYM + "Rsi/MyRSI against gains/losses over the N most recent changes, all tie/sign patterns as paths; corollaries (monotone windows, negation) as implications; N<=3 quick / N<=5 thorough, k=2N+3",
          "Bounded model checking: every outcome of every `change > 0` comparison is a path, on each the output is proven equal to the reference ratio for all real inputs; includes spikes entering and leaving the window and flat stretches after volatile ones (in real arithmetic).", "DESIGN.md §4 C05"),
 "C06": C(SYM + "CTI vs Pearson (polynomial form, sqrt axiomatised), NET vs Kendall tau over all pairs (pair orders are solver-decided branches), CoG formula; N in {3,4} quick / {3..6} thorough, k=N+2",
          "Bounded model checking: for every real-valued window within the bound the three indicators equal their defining correlation / centre-of-gravity formula; corollaries (+-1 on monotone/linear windows, sign flip, order-only dependence, 0 on constants) are proven as implications.", "DESIGN.md §4 C06"),
 "C07": C(SYM + "range obligations on every reported value of 20 bounded indicators, all comparison paths; N in {2,3} quick / {2..5} thorough, k=2N+2",
          "Bounded model checking over the reals: for all inputs within the bound every documented range holds (Cauchy-Schwarz / Samuelson-type bounds are discharged by nlsat, ln/tanh facts by axioms). PFE's bound is a recorded known finding with a companion obligation that it leaves the range only where the C11 reference formula does. The 'few ulps in f64' clause is outside (reals).", "DESIGN.md §4 C07"),
 "C08": C(SYM + "readiness monotonicity, documented first-output step, finiteness of every returned term (IEEE specials are modelled), never-ready inner view; every view, N<=3 quick / N<=6 thorough, plus seeded two-level chains",
          "Bounded model checking: on every feasible path within the bound a view that has reported keeps reporting, first reports exactly when documented, and never returns NaN/Inf (division by a feasible zero, sqrt/ln out of domain and the crate's own finiteness assertions all surface as violations).", "DESIGN.md §4 C08"),
 "C10": C(SYM + "three-run product (x, y, a*x+b*y) with symbolic a, b; DC obligations on a symbolic constant stream; N in {2,3,5} quick / {1..8,16} thorough; gamma concrete set + symbolic gamma",
          "Bounded model checking: superposition is proven as an identity over all real streams and scalars within the bound (single path for the linear views; any value-dependent branch would appear as extra paths), plus exact/converging/vanishing DC response.", "DESIGN.md §4 C10"),
 "C12": C(SYM + "two-run product on x and a*x+b / a*x / -x with symbolic a>0 and b; N=2 quick / {2,3,4} thorough, k=N+3",
          "Bounded model checking: invariance / scaling / negation relations are proven for all scales and offsets (solver variables) and all inputs within the bound, on every comparison path of both instances. CTI's partial window is a recorded known finding (separate unit); the f64 'bit-exact for powers of two' clause is outside.", "DESIGN.md §4 C12"),
 "C13": C(SYM + "WelfordRolling vs population mean/std (polynomial form), Drawdown vs max relative decline (peak by solver-decided comparisons), LnReturn by term identity; k = 8/5/6 quick, 16/7/12 thorough",
          "Bounded model checking for streams up to the stated length: all orderings (new peaks, repeated peaks, monotone runs) are paths. 'Millions of values' and error growth are outside.", "DESIGN.md §4 C13"),
 "C14": C(SYM + "scripted children emitting a fresh variable per step; output must be the identical term a_t op b_t (term identity => bit-identical in every float format); symbolic clip/constant",
          "Bounded model checking (k=4/8): the combinators are shown to be pointwise and stateless — any dependence on an earlier child value, swapped or cached operand yields a different term and a solver witness. Readiness iff both children ready.", "DESIGN.md §4 C14"),
 "C17": C(SYM + "twin / extra-last() / clone-and-diverge scripts over every view and seeded chains; obligations by term identity, all comparison paths; N=2 quick / {2,3} thorough",
          "Bounded model checking: because the real code runs on terms, any hidden shared, global or lazily-filled state shows as differing terms between twin, clone and original; seed varies the last() pattern and clone position.", "DESIGN.md §4 C17"),
 "C01": C(SYM + "chain B(A(leaf)) vs stand-alone A feeding stand-alone B, and combinators vs their children, composed through Box<dyn View<Sym>>; obligations by term identity (=> bit-identical in every float format), recording leaf for delivery; seeded sample (quick) / all 32x34 pairs at N=2 (thorough)",
          "Bounded model checking of compositions: every wrapper is the crate's real code monomorphised over a boxed inner view; on every explored comparison path the chain's output term is identical to the decomposition's, every leaf has received exactly the raw inputs in order, and a combinator reports iff both children do.", "DESIGN.md §4 C01"),
 "C03": C(SYM + "two-history product: private symbolic prefixes of different lengths + shared suffix of length K; outputs must be equal for all (unbounded) prefix values; N in {1,2} quick / {1..4} thorough",
          "Bounded model checking of finite memory: the prefix values are unconstrained solver variables ('arbitrarily large'), all comparison outcomes of both instances are explored, exceptions (MyRSI flat window, Roc zero base) are assumptions on the shared suffix only.", "DESIGN.md §4 C03"),
 "C09": C(SYM + "two-run product with symbolic bounded prefixes and a common symbolic tail of m=8N steps: one fixed gain bound and a 2^-6 fading bound as linear obligations over the input box (exact linear normal forms; for long recursions a rigorously rounded relaxation); TrendFlex/ReFlex/LaguerreRSI via term destructuring, along sampled comparison paths",
          "Bounded model checking of stability: for every input stream within the horizon s+8N (inputs are solver variables in [-1,1]) the output stays below one N-independent bound and the influence of the prefix has decayed below 2^-6. A pole at or outside the unit circle cannot satisfy the fading obligation. 'Unbounded length' is outside: the claim is the horizon.", "DESIGN.md §4 C09"),
 "C11": C(SYM + "equivalence against batch re-evaluations of the cited papers' difference equations (written independently, same libm for coefficients); exact equality, or 1e-5 tolerance where the crate truncates 1.414*pi to 4.4422; sqrt/ln outputs via term destructuring / axioms",
          "Bounded model checking: for all real inputs within the stated (N, k) every reported value of the nine Ehlers-style views equals the reference recursion re-evaluated from the complete history, on every comparison path. A changed coefficient, lag, sign or initial condition gives a different rational function and a solver witness.", "DESIGN.md §4 C11"),
 "C15": C(SYM + "panic-freedom: every view at N in {1,2,3} (all comparison paths, fully symbolic inputs) and N in {8,64} (constant / increasing / alternating / free streams along sampled comparison paths), seeded chains, seeded last() interleavings; run in the dev profile (debug assertions + overflow checks) and again in the release profile",
          "Bounded model checking of panic-freedom: integer state (indices, counters, deque lengths) runs concretely on every explored path of the real code, so index, underflow, unwrap and the crate's own finiteness assertions fire for real; a panic on a feasible path is replayed natively before it is reported. f64-specific panics (rounding residue) are outside the real-arithmetic engine.", "DESIGN.md §4 C15"),
 "C18": C(SYM + "counting global allocator (engine allocations masked) + symbolic exploration: live bytes owned by the view at every step in (L,4L] must not exceed the peak over the first L steps; streams = free symbolic prefix + constant/alternating/increasing symbolic tail; N in {1,2,3,8} quick / up to 32 thorough",
          "Bounded model checking: buffer histories depend on comparisons (ties, zeros, flat stretches), which are solver-decided branches; on every explored path the measured heap owned by the view stops growing once the window has filled. The claim is the horizon 4L, not 'millions of values'.", "DESIGN.md §4 C18"),
}
not_applicable = {
 "C16": "bound on accumulated IEEE-754 rounding error over 1e4..1e6-step streams: needs floating-point proofs; every installed back end (CBMC/Kani f64, z3/cvc5 QF_FP, rounding-aware reals in NRA) was probed on the smallest instance (Sma N=2, 5 values) and does not finish beyond toy float widths — see DESIGN.md §8",
}
pending = {}
for i in range(1, 19):
    pid = "C%02d" % i
    if pid not in checks and pid not in not_applicable:
        pending[pid] = "check not built yet (work in progress; see DESIGN.md §4 for the plan)"
m = {
 "version": 1,
 "setup_cmd": "bin/check setup",
 "hooks": {"guard": "--cfg sliding_features_verif", "enable": "none needed: every view is generic over T: num::Float, so the harness crate instantiates the unmodified source at its own scalar type (path dependency on /repo)", "baseline_off_cmd": "cd /repo && cargo test --workspace --no-fail-fast --offline", "source_commits": [], "add_only": True},
 "engines": [{"name": "symreal", "path": "engine/", "serves_properties": sorted(checks), "kind_free_text": R}],
 "checks": [
   {"property_id": pid, "quick_cmd": f"bin/check {pid} quick", "thorough_cmd": f"bin/check {pid} thorough", "evidence_file": f"evidence/{pid}.json",
    "replay_cmd_template": "bin/check replay {path}", "engine": "symreal",
    "level_claimed": {"category": "model_checking", "text": c["text"], "design_ref": c["ref"]},
    "level_note": c.get("note", TRUST), "technique": c["tech"]} for pid, c in sorted(checks.items())],
 "not_applicable": [{"property_id": k, "reason": v} for k, v in sorted({**not_applicable, **pending}.items())],
 "notes": "Exit codes: 0 held on everything explored (KNOWN-FINDING lines allowed), 1 VIOLATION (replayed exactly before being printed), 2 inconclusive (solver unknown / model did not replay / harness does not compile). Fix commits in /repo are listed in known_findings.json under 'fixed'.",
}
json.dump(m, open(os.path.join(V, "MANIFEST.json"), "w"), indent=1)
print("MANIFEST.json written:", len(m["checks"]), "checks,", len(m["not_applicable"]), "not applicable")
