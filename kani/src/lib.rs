//! Engine K: Kani (CBMC) proof harnesses over the compiled f64 instantiation of sliding_features.
//! Only obligations that CBMC finishes are kept here (panic-freedom, comparison / bit-copy kernels, single
//! arithmetic operations); see DESIGN.md §2.2 and §3 for what was probed and dropped.
//! Every harness body is an ordinary function over a source of "arbitrary" f64 values, so that a Kani
//! counterexample can be replayed natively (dev and release) by `src/bin/kreplay.rs` before it is reported.
#![allow(unused)]
use sliding_features::{pure_functions::*, rolling::*, sliding_windows::*, View};

pub trait Src { /// an arbitrary value with lo <= |x| <= hi, or exactly 0 if `zero_ok`
    fn mag(&mut self, lo: f64, hi: f64, zero_ok: bool) -> f64;
    fn check(&mut self, ok: bool, what: &'static str);
}
/// child view that ignores its input and reports the value it was constructed with
#[derive(Clone)]
pub struct Feed { pub v: Option<f64> }
impl View<f64> for Feed { fn update(&mut self, _: f64) {} fn last(&self) -> Option<f64> { self.v } }
fn same(a: Option<f64>, b: Option<f64>) -> bool { match (a, b) { (None, None) => true, (Some(x), Some(y)) => x.to_bits() == y.to_bits(), _ => false } }
/// "finite input of moderate magnitude": 0, or 1e-3 <= |x| <= 1e3 (three decades; no overflow by construction)
fn input(s: &mut impl Src) -> f64 { s.mag(1e-3, 1e3, true) }
fn positive(s: &mut impl Src) -> f64 { let x = s.mag(1e-3, 1e3, false); if x < 0.0 { -x } else { x } }

macro_rules! harnesses { ($( $name:ident [$unwind:expr] ($s:ident) $body:block )*) => {
    $( pub fn $name($s: &mut impl Src) $body )*
    pub const NAMES: &[&str] = &[$(stringify!($name)),*];
    pub fn run_by_name(name: &str, s: &mut impl Src) -> bool { match name { $( stringify!($name) => { $name(s); true } )* _ => false } }
    #[cfg(kani)]
    mod proofs { use super::*;
        pub struct K;
        impl Src for K {
            fn mag(&mut self, lo: f64, hi: f64, zero_ok: bool) -> f64 { let x: f64 = kani::any(); let a = if x < 0.0 { -x } else { x }; kani::assume((a >= lo && a <= hi) || (zero_ok && x == 0.0)); x }
            fn check(&mut self, ok: bool, what: &'static str) { assert!(ok, "{}", what); }
        }
        $( #[kani::proof] #[kani::unwind($unwind)] fn $name() { super::$name(&mut K) } )*
    }
} }

macro_rules! binop { ($s:ident, $ty:ident, $op:tt, $nz:expr) => {{
    let a = input($s); let b = if $nz { $s.mag(1e-3, 1e3, false) } else { input($s) };
    let mut v = $ty::new(Feed { v: Some(a) }, Feed { v: Some(b) });
    v.update(input($s));
    $s.check(same(v.last(), Some(a $op b)), concat!(stringify!($ty), ": out is exactly a op b of the children's current outputs (bits)"));
    let none = $ty::new(Feed { v: None }, Feed { v: Some(b) });
    $s.check(none.last().is_none(), concat!(stringify!($ty), ": no value unless both children have one"));
}} }
macro_rules! no_panic { ($s:ident, $k:expr, $mk:expr, $inp:ident) => {{ let mut v = $mk; let _ = v.last(); for _ in 0..$k { v.update($inp($s)); let _ = v.last(); } }} }

harnesses! {
    // ---------------- C14: combinators are pointwise and bit-exact -------------------------------------------
    c14_add [3] (s) { binop!(s, Add, +, false) }
    c14_subtract [3] (s) { binop!(s, Subtract, -, false) }
    c14_multiply [3] (s) { binop!(s, Multiply, *, false) }
    c14_divide [3] (s) { binop!(s, Divide, /, true) }
    c14_gte_lte_echo_constant [5] (s) {
        let clip = input(s); let c = input(s);
        let (mut g, mut l, mut e, mut k) = (GTE::new(Echo::new(), clip), LTE::new(Echo::new(), clip), Echo::new(), Constant::new(c));
        for _ in 0..3 {
            let x = input(s);
            g.update(x); l.update(x); e.update(x); k.update(x);
            s.check(same(g.last(), Some(if x >= clip { x } else { clip })), "GTE: out is max(child, clip), one of the two, bit-exactly");
            s.check(same(l.last(), Some(if x <= clip { x } else { clip })), "LTE: out is min(child, clip), one of the two, bit-exactly");
            s.check(same(e.last(), Some(x)), "Echo: out is the latest input");
            s.check(same(k.last(), Some(c)), "Constant: out is its constant");
        }
    }
    // ---------------- C07: comparison-only range kernels on f64 ----------------------------------------------
    c07_min_newest_max_n2 [7] (s) {
        let (mut mn, mut mx) = (Min::new(Echo::new(), 2), Max::new(Echo::new(), 2));
        let mut prev: Option<f64> = None;
        for _ in 0..4 {
            let x = input(s);
            mn.update(x); mx.update(x);
            let (lo, hi) = (mn.last().unwrap(), mx.last().unwrap());
            s.check(lo <= x && x <= hi, "Min <= newest value <= Max");
            let w_lo = match prev { Some(p) => if p < x { p } else { x }, None => x };
            let w_hi = match prev { Some(p) => if p > x { p } else { x }, None => x };
            s.check(lo == w_lo && hi == w_hi, "Min/Max are the extrema of exactly the last two values");
            prev = Some(x);
        }
    }
    c07_gte_lte_clip [6] (s) {
        let clip = input(s);
        let (mut g, mut l) = (GTE::new(Echo::new(), clip), LTE::new(Echo::new(), clip));
        for _ in 0..3 { let x = input(s); g.update(x); l.update(x); s.check(g.last().unwrap() >= clip, "GTE >= clip"); s.check(l.last().unwrap() <= clip, "LTE <= clip"); }
    }
    c07_drawdown_range_monotone [6] (s) {
        let mut v = Drawdown::new(Echo::new());
        let mut prev = 0.0;
        for _ in 0..2 { v.update(positive(s)); let o = v.last().unwrap(); s.check(o >= prev && o >= 0.0 && o < 1.0, "Drawdown in [0,1) and non-decreasing for positive inputs"); prev = o; }
    }
    c07_welford_online_nonneg_n2 [8] (s) {
        let mut v = WelfordOnline::new(Echo::new(), 2);
        for _ in 0..4 { v.update(input(s)); if let Some(o) = v.last() { s.check(o >= 0.0, "WelfordOnline >= 0 (never negative, never NaN) on f64"); } }
    }
    // ---------------- C12: Min/Max commute bit-exactly with a power-of-two scale and with negation ------------
    c12_minmax_pow2_and_negation [7] (s) {
        let (mut a, mut b, mut c) = (Min::new(Echo::new(), 2), Min::new(Echo::new(), 2), Max::new(Echo::new(), 2));
        for _ in 0..4 {
            let x = input(s);
            a.update(x); b.update(4.0 * x); c.update(-x);
            s.check(same(b.last(), a.last().map(|v| 4.0 * v)), "Min(4x) == 4 Min(x) bit-exactly");
            s.check(c.last().unwrap() == -(a.last().unwrap()), "Max(-x) == -Min(x)");
        }
    }
    // ---------------- C17: twins / purity / clones on bits ----------------------------------------------------
    c17_min_twin_clone [7] (s) {
        let (mut a, mut b) = (Min::new(Echo::new(), 2), Min::new(Echo::new(), 2));
        for _ in 0..2 { let x = input(s); a.update(x); b.update(x); let _ = b.last(); let _ = b.last(); s.check(same(a.last(), b.last()), "twin with extra last() calls is bit-identical"); }
        let mut c = a.clone();
        let before = a.last();
        let y = input(s);
        c.update(y);
        s.check(same(a.last(), before), "feeding the clone does not affect the original");
        a.update(y);
        s.check(same(a.last(), c.last()), "clone continues exactly like the original");
    }
    c17_gte_echo_twin_clone [6] (s) {
        let clip = input(s);
        let mut a = GTE::new(Echo::new(), clip);
        a.update(input(s));
        let mut c = a.clone();
        let before = a.last();
        let y = input(s);
        c.update(y);
        s.check(same(a.last(), before) && same(a.last(), a.last()), "feeding the clone does not affect the original; last() is pure");
        a.update(y);
        s.check(same(a.last(), c.last()), "clone continues exactly like the original");
    }
    // ---------------- C15: panic-freedom on the machine f64 (all of Kani's checks + the crate's debug_assert!s) -
    c15_sma_n1 [8] (s) { no_panic!(s, 4, Sma::new(Echo::new(), 1), input) }
    c15_sma_n2 [8] (s) { no_panic!(s, 5, Sma::new(Echo::new(), 2), input) }
    c15_cumulative_n2 [8] (s) { no_panic!(s, 5, Cumulative::new(Echo::new(), 2), input) }
    c15_ema_n2 [8] (s) { no_panic!(s, 5, Ema::new(Echo::new(), 2), input) }
    c15_min_n2 [8] (s) { no_panic!(s, 5, Min::new(Echo::new(), 2), input) }
    c15_max_n1 [8] (s) { no_panic!(s, 4, Max::new(Echo::new(), 1), input) }
    c15_roc_n1 [8] (s) { no_panic!(s, 3, Roc::new(Echo::new(), 1), input) }
    c15_binary_entropy_n2 [8] (s) { no_panic!(s, 5, BinaryEntropy::new(Echo::new(), 2), input) }
    c15_cyber_cycle_n1 [12] (s) { no_panic!(s, 8, CyberCycle::new(Echo::new(), 1), input) }
    c15_cyber_cycle_n4 [12] (s) { no_panic!(s, 8, CyberCycle::new(Echo::new(), 4), input) }
    c15_super_smoother_n1 [8] (s) { no_panic!(s, 4, SuperSmoother::new(Echo::new(), 1), input) }
    c15_laguerre_filter [8] (s) { no_panic!(s, 4, LaguerreFilter::new(Echo::new(), 0.5), input) }
    c15_hl_normalizer_n1 [8] (s) { no_panic!(s, 4, HLNormalizer::new(Echo::new(), 1), input) }
    c15_my_rsi_n1 [8] (s) { no_panic!(s, 4, MyRSI::new(Echo::new(), 1), input) }
    c15_cog_n2 [8] (s) { no_panic!(s, 4, CenterOfGravity::new(Echo::new(), 2), input) }
    c15_net_n3 [10] (s) { no_panic!(s, 5, NoiseEliminationTechnology::new(Echo::new(), 3), input) }
    c15_eft_n1 [8] (s) { no_panic!(s, 4, EhlersFisherTransform::new(Echo::new(), Echo::new(), 1), input) }
    c15_drawdown [8] (s) { no_panic!(s, 4, Drawdown::new(Echo::new()), positive) }
    c15_ln_return [8] (s) { no_panic!(s, 4, LnReturn::new(Echo::new()), positive) }
    c15_welford_online_n2 [8] (s) { no_panic!(s, 4, WelfordOnline::new(Echo::new(), 2), input) }
    c15_welford_rolling [8] (s) { no_panic!(s, 4, WelfordRolling::new(Echo::new()), input) }
}
