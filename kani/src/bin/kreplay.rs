//! Native replay of a Kani counterexample: kreplay <harness> <f64 bits as hex>...   exit 1 = reproduces (check fails or panic)
use kaniharness::{run_by_name, Src};
struct Replay { vals: Vec<f64>, i: usize, failed: Vec<&'static str>, out_of_domain: bool }
impl Src for Replay {
    fn mag(&mut self, lo: f64, hi: f64, zero_ok: bool) -> f64 { let x = self.vals.get(self.i).copied().unwrap_or(0.0); self.i += 1; let a = x.abs(); if !((a >= lo && a <= hi) || (zero_ok && x == 0.0)) { self.out_of_domain = true; } x }
    fn check(&mut self, ok: bool, what: &'static str) { if !ok { self.failed.push(what); } }
}
fn main() {
    let a: Vec<String> = std::env::args().skip(1).collect();
    let vals: Vec<f64> = a[1..].iter().map(|h| f64::from_bits(u64::from_str_radix(h, 16).expect("hex bits"))).collect();
    let mut r = Replay { vals: vals.clone(), i: 0, failed: vec![], out_of_domain: false };
    let res = std::panic::catch_unwind(std::panic::AssertUnwindSafe(|| run_by_name(&a[0], &mut r)));
    let profile = if cfg!(debug_assertions) { "dev" } else { "release" };
    match res {
        Err(_) => { println!("kreplay[{profile}] {} {:?}: PANICS", a[0], vals); std::process::exit(1) }
        Ok(false) => { println!("unknown harness {}", a[0]); std::process::exit(2) }
        Ok(true) => {
            if r.out_of_domain { println!("kreplay[{profile}] {} {:?}: values outside the harness's input domain", a[0], vals); std::process::exit(3) }
            if !r.failed.is_empty() { println!("kreplay[{profile}] {} {:?}: FAILS {:?}", a[0], vals, r.failed); std::process::exit(1) }
            println!("kreplay[{profile}] {} {:?}: passes", a[0], vals);
        }
    }
}
