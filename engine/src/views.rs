//! Catalogue of every view of the crate, constructible dynamically (`VK` + `build`) so that
//! each real wrapper is monomorphised once over a boxed inner view, plus harness leaf views.
use crate::dom::Dom;
use sliding_features::{pure_functions::*, rolling::*, sliding_windows::*, View};
use std::cell::RefCell;
use std::rc::Rc;

pub trait CView<T: Dom>: View<T> { fn box_clone(&self) -> Option<Box<dyn CView<T>>>; }
impl<T: Dom, V: View<T> + Clone + 'static> CView<T> for V { fn box_clone(&self) -> Option<Box<dyn CView<T>>> { Some(Box::new(self.clone())) } }
/// wrapper for views that do not implement Clone (Add)
pub struct NoClone<V>(pub V);
impl<T: Dom, V: View<T>> View<T> for NoClone<V> { fn update(&mut self, v: T) { self.0.update(v) } fn last(&self) -> Option<T> { self.0.last() } }
impl<T: Dom, V: View<T>> CView<T> for NoClone<V> { fn box_clone(&self) -> Option<Box<dyn CView<T>>> { None } }

pub struct DynV<T: Dom>(pub Box<dyn CView<T>>);
impl<T: Dom> View<T> for DynV<T> { fn update(&mut self, v: T) { self.0.update(v) } fn last(&self) -> Option<T> { self.0.last() } }
impl<T: Dom> Clone for DynV<T> { fn clone(&self) -> Self { DynV(self.0.box_clone().expect("view is not Clone")) } }
impl<T: Dom> std::fmt::Debug for DynV<T> { fn fmt(&self, f: &mut std::fmt::Formatter<'_>) -> std::fmt::Result { write!(f, "DynV") } }
impl<T: Dom> DynV<T> { pub fn new<V: CView<T> + 'static>(v: V) -> Self { DynV(Box::new(v)) } pub fn can_clone(&self) -> bool { self.0.box_clone().is_some() } }

// ---- harness leaves ------------------------------------------------------------------------
/// records every value delivered to it (delivery obligation of C01); behaves like Echo
#[derive(Clone)]
pub struct Tap<T> { pub log: Rc<RefCell<Vec<T>>>, out: Option<T> }
impl<T: Dom> Tap<T> { pub fn new() -> (Self, Rc<RefCell<Vec<T>>>) { let log = Rc::new(RefCell::new(vec![])); (Tap { log: log.clone(), out: None }, log) } }
impl<T: Dom> View<T> for Tap<T> { fn update(&mut self, v: T) { self.log.borrow_mut().push(v); self.out = Some(v); } fn last(&self) -> Option<T> { self.out } }
/// ignores its input and emits a scripted value per update (None = not ready)
#[derive(Clone)]
pub struct Script<T> { pub vals: Vec<Option<T>>, i: usize }
impl<T: Dom> Script<T> { pub fn new(vals: Vec<Option<T>>) -> Self { Script { vals, i: 0 } } }
impl<T: Dom> View<T> for Script<T> { fn update(&mut self, _: T) { self.i += 1; } fn last(&self) -> Option<T> { if self.i == 0 { None } else { self.vals.get(self.i - 1).copied().flatten() } } }
/// never ready
#[derive(Clone)]
pub struct Silent;
impl<T: Dom> View<T> for Silent { fn update(&mut self, _: T) {} fn last(&self) -> Option<T> { None } }

// ---- catalogue -----------------------------------------------------------------------------
#[derive(Clone, Debug, PartialEq)]
pub enum VK {
    Echo, Constant(f64), Gte(f64), Lte(f64), Tanh, Drawdown, LnReturn, WelfordRolling,
    Sma(usize), Ema(usize), Alma(usize), Cumulative(usize), Min(usize), Max(usize), WelfordOnline(usize), Vst(usize), Vsct(usize),
    HLNormalizer(usize), Roc(usize), BinaryEntropy(usize), Rsi(usize), MyRSI(usize), CoG(usize), CTI(usize), NET(usize),
    PFE(usize, Box<VK>), EFT(usize, Box<VK>), LaguerreFilter(f64), LaguerreRSI(usize), SuperSmoother(usize), Roofing(usize, usize),
    CyberCycle(usize), TrendFlex(usize), ReFlex(usize),
    AlmaCustom(usize, f64, f64), EmaAlpha(usize, f64),
}
impl VK {
    pub fn name(&self) -> String {
        match self {
            VK::PFE(n, m) => format!("PFE({},{})", n, m.name()), VK::EFT(n, m) => format!("EFT({},{})", n, m.name()),
            o => format!("{:?}", o),
        }
    }
    /// inputs must be positive for the view to be in-domain
    pub fn needs_positive(&self) -> bool { matches!(self, VK::Drawdown | VK::LnReturn) }
    pub fn is_leaf(&self) -> bool { matches!(self, VK::Echo | VK::Constant(_)) }
}
pub fn echo<T: Dom>() -> DynV<T> { DynV::new(Echo::<T>::new()) }
pub fn build<T: Dom>(k: &VK, inner: DynV<T>) -> DynV<T> {
    match k {
        VK::Echo => DynV::new(Echo::<T>::new()),
        VK::Constant(c) => DynV::new(Constant::new(T::c(*c))),
        VK::Gte(c) => DynV::new(GTE::new(inner, T::c(*c))),
        VK::Lte(c) => DynV::new(LTE::new(inner, T::c(*c))),
        VK::Tanh => DynV::new(Tanh::new(inner)),
        VK::Drawdown => DynV::new(Drawdown::new(inner)),
        VK::LnReturn => DynV::new(LnReturn::new(inner)),
        VK::WelfordRolling => DynV::new(WelfordRolling::new(inner)),
        VK::Sma(n) => DynV::new(Sma::new(inner, *n)),
        VK::Ema(n) => DynV::new(Ema::new(inner, *n)),
        VK::Alma(n) => DynV::new(Alma::new(inner, *n)),
        VK::Cumulative(n) => DynV::new(Cumulative::new(inner, *n)),
        VK::Min(n) => DynV::new(Min::new(inner, *n)),
        VK::Max(n) => DynV::new(Max::new(inner, *n)),
        VK::WelfordOnline(n) => DynV::new(WelfordOnline::new(inner, *n)),
        VK::Vst(n) => DynV::new(Vst::new(inner, *n)),
        VK::Vsct(n) => DynV::new(Vsct::new(inner, *n)),
        VK::HLNormalizer(n) => DynV::new(HLNormalizer::new(inner, *n)),
        VK::Roc(n) => DynV::new(Roc::new(inner, *n)),
        VK::BinaryEntropy(n) => DynV::new(BinaryEntropy::new(inner, *n)),
        VK::Rsi(n) => DynV::new(Rsi::new(inner, *n)),
        VK::MyRSI(n) => DynV::new(MyRSI::new(inner, *n)),
        VK::CoG(n) => DynV::new(CenterOfGravity::new(inner, *n)),
        VK::CTI(n) => DynV::new(CorrelationTrendIndicator::new(inner, *n)),
        VK::NET(n) => DynV::new(NoiseEliminationTechnology::new(inner, *n)),
        VK::PFE(n, ma) => DynV::new(PolarizedFractalEfficiency::new(inner, build(ma, echo()), *n)),
        VK::EFT(n, ma) => DynV::new(EhlersFisherTransform::new(inner, build(ma, echo()), *n)),
        VK::LaguerreFilter(g) => DynV::new(LaguerreFilter::new(inner, T::c(*g))),
        VK::LaguerreRSI(n) => DynV::new(LaguerreRSI::new(inner, *n)),
        VK::SuperSmoother(n) => DynV::new(SuperSmoother::new(inner, *n)),
        VK::Roofing(n, m) => DynV::new(RoofingFilter::new(inner, *n, *m)),
        VK::CyberCycle(n) => DynV::new(CyberCycle::new(inner, *n)),
        VK::TrendFlex(n) => DynV::new(TrendFlex::new(inner, *n)),
        VK::ReFlex(n) => DynV::new(ReFlex::new(inner, *n)),
        VK::AlmaCustom(n, sg, off) => DynV::new(Alma::new_custom(inner, *n, T::c(*sg), T::c(*off))),
        VK::EmaAlpha(n, a) => DynV::new(Ema::with_alpha(inner, *n, T::c(*a))),
    }
}
/// every unary wrapper of the crate at window length n (secondary parameters fixed)
pub fn wrappers(n: usize) -> Vec<VK> {
    let m = n.max(1);
    vec![VK::Gte(0.25), VK::Lte(0.25), VK::Tanh, VK::Drawdown, VK::LnReturn, VK::WelfordRolling,
        VK::Sma(m), VK::Ema(m), VK::Alma(m), VK::Cumulative(m), VK::Min(m), VK::Max(m), VK::WelfordOnline(m), VK::Vst(m), VK::Vsct(m),
        VK::HLNormalizer(m), VK::Roc(m), VK::BinaryEntropy(m), VK::Rsi(m), VK::MyRSI(m), VK::CoG(m), VK::CTI(m.max(3)), VK::NET(m.max(3)),
        VK::PFE(m.max(3), Box::new(VK::Echo)), VK::EFT(m.max(2), Box::new(VK::Echo)), VK::LaguerreFilter(0.5), VK::LaguerreRSI(m.max(2)), VK::SuperSmoother(m), VK::Roofing(m.max(2), m),
        VK::CyberCycle(m.max(3)), VK::TrendFlex(m.max(3)), VK::ReFlex(m.max(3))]
}
pub fn binop<T: Dom>(op: usize, a: DynV<T>, b: DynV<T>) -> DynV<T> {
    match op { 0 => DynV(Box::new(NoClone(Add::new(a, b)))), 1 => DynV::new(Subtract::new(a, b)), 2 => DynV::new(Multiply::new(a, b)), _ => DynV::new(Divide::new(a, b)) }
}
pub const BINOPS: [&str; 4] = ["Add", "Subtract", "Multiply", "Divide"];
/// tiny deterministic PRNG for seed-selected sub-samples
pub struct Rng(pub u64);
impl Rng { pub fn next(&mut self) -> u64 { self.0 ^= self.0 << 13; self.0 ^= self.0 >> 7; self.0 ^= self.0 << 17; self.0 } pub fn below(&mut self, n: usize) -> usize { (self.next() % n as u64) as usize }
    pub fn new(seed: u64) -> Self { Rng(seed.wrapping_mul(0x9E3779B97F4A7C15) ^ 0xD1B54A32D192ED03) } }
