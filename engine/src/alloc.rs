//! Counting global allocator for C18. Only allocations made while `track()` is active on the current thread and
//! outside the engine itself (term arena, solver strings: masked by `sym::IN_ENGINE`) are counted, so the counter
//! sees exactly the buffers owned by the view under test.
use std::alloc::{GlobalAlloc, Layout, System};
use std::cell::Cell;

thread_local! {
    static TRACK: Cell<bool> = const { Cell::new(false) };
    static LIVE: Cell<i64> = const { Cell::new(0) };
}
pub struct Counting;
#[inline]
fn counted() -> bool { TRACK.try_with(|t| t.get()).unwrap_or(false) && crate::sym::IN_ENGINE.try_with(|e| e.get() == 0).unwrap_or(false) }
#[inline]
fn add(d: i64) { let _ = LIVE.try_with(|l| l.set(l.get() + d)); }
unsafe impl GlobalAlloc for Counting {
    unsafe fn alloc(&self, l: Layout) -> *mut u8 { let p = System.alloc(l); if !p.is_null() && counted() { add(l.size() as i64); } p }
    unsafe fn dealloc(&self, p: *mut u8, l: Layout) { System.dealloc(p, l); if counted() { add(-(l.size() as i64)); } }
    unsafe fn realloc(&self, p: *mut u8, l: Layout, new: usize) -> *mut u8 { let q = System.realloc(p, l, new); if !q.is_null() && counted() { add(new as i64 - l.size() as i64); } q }
}
/// run `f` with allocation tracking on
pub fn track<R>(f: impl FnOnce() -> R) -> R { let prev = TRACK.with(|t| t.replace(true)); let r = f(); TRACK.with(|t| t.set(prev)); r }
pub fn live() -> i64 { LIVE.with(|l| l.get()) }
pub fn reset() { LIVE.with(|l| l.set(0)); TRACK.with(|t| t.set(false)); }
