//! C02 — window statistics equal their definition over exactly the last N values.
//! Oracles are batch re-computations from the full input history (Appendix A of DESIGN.md),
//! written independently of the crate; `impl == spec` is a solver query per step and path.
use crate::dom::*;
use crate::props::{Meta, Tier};
use crate::run::Unit;
use crate::sym::Cond;
use crate::unit;
use sliding_features::{pure_functions::Echo, sliding_windows::*, View};

fn sma<T: Dom>(n: usize, k: usize) {
    let mut v = Sma::new(Echo::new(), n);
    let mut h: Vec<T> = vec![];
    for t in 0..k {
        let x = inp::<T>(t, h.last().copied());
        h.push(x);
        v.update(x);
        let w = window(&h, n);
        if let Some(o) = v.last() {
            T::oblige(&format!("Sma(N={n}) t={t}: out*n == sum of the last min(t,N) values"), eq(o * T::u(w.len()), sum(w)));
        }
    }
}
fn cumulative<T: Dom>(n: usize, k: usize) {
    let mut v = Cumulative::new(Echo::new(), n);
    let mut h: Vec<T> = vec![];
    for t in 0..k {
        let x = inp::<T>(t, h.last().copied());
        h.push(x);
        v.update(x);
        let w = window(&h, n);
        match v.last() {
            Some(o) => T::oblige(&format!("Cumulative(N={n}) t={t}: out == sum of the last min(t,N) values"), eq(o, sum(w))),
            None => T::oblige(&format!("Cumulative(N={n}) t={t}: has a value"), Cond::Bool(false)),
        }
    }
}
fn minmax<T: Dom>(n: usize, k: usize, is_max_: bool) {
    let mut mn = Min::new(Echo::new(), n);
    let mut mx = Max::new(Echo::new(), n);
    let mut h: Vec<T> = vec![];
    for t in 0..k {
        let x = inp::<T>(t, h.last().copied());
        h.push(x);
        let w = window(&h, n);
        if is_max_ {
            mx.update(x);
            match mx.last() { Some(o) => T::oblige(&format!("Max(N={n}) t={t}: out is the maximum of the last min(t,N) values"), is_max(o, w)), None => T::oblige(&format!("Max(N={n}) t={t}: has a value"), Cond::Bool(false)) }
        } else {
            mn.update(x);
            match mn.last() { Some(o) => T::oblige(&format!("Min(N={n}) t={t}: out is the minimum of the last min(t,N) values"), is_min(o, w)), None => T::oblige(&format!("Min(N={n}) t={t}: has a value"), Cond::Bool(false)) }
        }
    }
}
/// sum of squared deviations from the mean, times n^2 (keeps everything polynomial): n^2*SS = sum (n*x - S)^2
fn ss_n2<T: Dom>(w: &[T]) -> T {
    let n = T::u(w.len());
    let s = sum(w);
    w.iter().fold(T::zero(), |a, x| a + (n * *x - s) * (n * *x - s))
}
fn welford<T: Dom>(n: usize, k: usize) {
    let mut v = WelfordOnline::new(Echo::new(), n);
    let mut h: Vec<T> = vec![];
    for t in 0..k {
        let x = inp::<T>(t, h.last().copied());
        h.push(x);
        v.update(x);
        let w = window(&h, n);
        let nn = T::u(w.len());
        T::oblige(&format!("WelfordOnline(N={n}) t={t}: mean()*n == sum of the last min(t,N) values"), eq(v.mean() * nn, sum(w)));
        // variance()*(n-1) == SS   <=>  variance * (n-1) * n^2 == n^2*SS
        if w.len() > 1 {
            T::oblige(&format!("WelfordOnline(N={n}) t={t}: variance() == sample variance of the window"), eq(v.variance() * T::u(w.len() - 1) * nn * nn, ss_n2(w)));
        } else {
            T::oblige(&format!("WelfordOnline(N={n}) t={t}: variance() == 0 for a single value"), eq(v.variance(), T::zero()));
        }
        if let Some(s) = v.last() {
            if w.len() > 1 {
                let general = Cond::And(vec![le(T::zero(), s), eq(s * s * T::u(w.len() - 1) * nn * nn, ss_n2(w))]);
                // where the returned term is sqrt(rad), the polynomial condition on the radicand suffices
                let mut alts = vec![];
                if let Some(rad) = s.sqrt_part() { alts.push(eq(rad * T::u(w.len() - 1) * nn * nn, ss_n2(w))); }
                // on the path where the view returns 0 because its variance is <= 0: the variance is, as a polynomial identity,
                // the sum of squares ssn2/((n-1)n^2), which is >= 0 term by term; give the solver that identity as a fact
                if let Some(l) = T::lemma_eq(v.variance() * T::u(w.len() - 1) * nn * nn, ss_n2(w)) { alts.push(Cond::implies(l, general.clone())); }
                alts.push(general);
                T::oblige_alt(&format!("WelfordOnline(N={n}) t={t}: last() == sample standard deviation of the window"), alts);
            } else {
                T::oblige(&format!("WelfordOnline(N={n}) t={t}: last() == 0 for a single value"), eq(s, T::zero()));
            }
        }
    }
}
fn hln<T: Dom>(n: usize, k: usize) {
    let mut v = HLNormalizer::new(Echo::new(), n);
    let mut h: Vec<T> = vec![];
    let two = T::c(2.0);
    for t in 0..k {
        let x = inp::<T>(t, h.last().copied());
        h.push(x);
        v.update(x);
        let w = window(&h, n);
        let Some(o) = v.last() else { T::oblige(&format!("HLNormalizer(N={n}) t={t}: has a value"), Cond::Bool(false)); continue };
        // exists mn, mx in the window bounding it, with out = 2(x-mn)/(mx-mn)-1, or 0 when flat
        let mut cases = vec![];
        for mn in w { for mx in w {
            let mut c: Vec<Cond<T>> = w.iter().map(|y| Cond::between(*mn, *y, *mx)).collect();
            c.push(Cond::Or(vec![
                Cond::And(vec![eq(*mx, *mn), eq(o, T::zero())]),
                Cond::And(vec![Cond::Ne(*mx, *mn), eq(o * (*mx - *mn), two * (x - *mn) - (*mx - *mn))]),
            ]));
            cases.push(Cond::And(c));
        } }
        // the real code builds  -1 + ((last - min) * 2) / (max - min): where that structure is present, it suffices (and is linear)
        // that `last` is the newest value and `min`/`max` are the extrema of the window
        let mut alts = vec![];
        if let Some(('+', _, frac)) = o.bin_parts() { if let Some(('/', num, den)) = frac.bin_parts() { if let (Some(('*', lm, _)), Some(('-', mx, mn2))) = (num.bin_parts(), den.bin_parts()) { if let Some(('-', last, mn)) = lm.bin_parts() {
            alts.push(Cond::And(vec![eq(last, x), eq(mn, mn2), is_min(mn, w), is_max(mx, w), eq(o * (mx - mn), two * (x - mn) - (mx - mn))]));
        } } } }
        // the boundary cases, where the quotient folds to a constant: newest value is the window's minimum / maximum / the window is flat
        let not_flat = Cond::Or(w.iter().map(|y| Cond::Ne(*y, x)).collect());
        alts.push(Cond::And(vec![eq(o, -T::one()), is_min(x, w), not_flat.clone()]));
        alts.push(Cond::And(vec![eq(o, T::one()), is_max(x, w), not_flat]));
        alts.push(Cond::And(vec![eq(o, T::zero()), Cond::And(w.iter().map(|y| eq(*y, x)).collect())]));
        alts.push(Cond::Or(cases));
        T::oblige_alt(&format!("HLNormalizer(N={n}) t={t}: out == 2(x-min)/(max-min)-1 over the last min(t,N) values (0 if flat)"), alts);
    }
}
fn roc<T: Dom>(n: usize, k: usize) {
    let mut v = Roc::new(Echo::new(), n);
    let mut h: Vec<T> = vec![];
    let mut held: Option<T> = None;
    for t in 0..k {
        let x = inp::<T>(t, h.last().copied());
        h.push(x);
        v.update(x);
        let cnt = h.len();
        let base = if cnt > n { h[cnt - 1 - n] } else { h[0] };
        if base == T::zero() {
            T::oblige(&format!("Roc(N={n}) t={t}: base is 0 -> previous output held"), opt_eq(v.last(), held));
        } else {
            match v.last() {
                Some(o) => T::oblige(&format!("Roc(N={n}) t={t}: out == 100 (x_t - x_(t-N)) / x_(t-N)"), eq(o * base, T::c(100.0) * (x - base))),
                None => T::oblige(&format!("Roc(N={n}) t={t}: has a value"), Cond::Bool(false)),
            }
            held = v.last();
        }
    }
}
fn entropy_bits(p: usize, n: usize) -> f64 {
    let f = |c: usize| if c == 0 { 0.0 } else { let q = c as f64 / n as f64; q * q.log2() };
    -(f(p) + f(n - p))
}
fn binary_entropy<T: Dom>(n: usize, k: usize) {
    let mut v = BinaryEntropy::new(Echo::new(), n);
    let mut h: Vec<T> = vec![];
    for t in 0..k {
        let x = inp::<T>(t, h.last().copied());
        h.push(x);
        v.update(x);
        let w = window(&h, n);
        let p = w.iter().filter(|y| **y >= T::zero()).count(); // decided per path by the solver
        match v.last() {
            Some(o) => T::oblige(&format!("BinaryEntropy(N={n}) t={t}: out == H(p), p = share of non-negative values among the last min(t,N)"), close(o, T::c(entropy_bits(p, w.len())), T::c(1e-12))),
            None => T::oblige(&format!("BinaryEntropy(N={n}) t={t}: has a value"), Cond::Bool(false)),
        }
    }
}
fn vst<T: Dom>(n: usize, k: usize, centered: bool) {
    let mut a = Vst::new(Echo::new(), n);
    let mut b = Vsct::new(Echo::new(), n);
    let mut h: Vec<T> = vec![];
    let name = if centered { "Vsct" } else { "Vst" };
    for t in 0..k {
        let x = inp::<T>(t, h.last().copied());
        h.push(x);
        if centered { b.update(x) } else { a.update(x) };
        let w = window(&h, n);
        let nn = T::u(w.len());
        let out = if centered { b.last() } else { a.last() };
        let Some(o) = out else { continue };
        // numerator: x (Vst) or x - mean (Vsct), scaled by n:  n*x  resp. n*x - S
        let num_n = if centered { nn * x - sum(w) } else { nn * x };
        let ssn2 = ss_n2(w); // n^2 * SS ; var = SS/(n-1)
        let flat = if w.len() > 1 { Cond::Eq(ssn2, T::zero()) } else { Cond::Bool(true) };
        let when_flat = if centered { eq(o, T::zero()) } else { eq(o, x) };
        // o = num/std  <=>  o^2 * var = num^2  and  o*num >= 0   (std > 0)
        //   with var = ssn2/(n^2 (n-1)), num = num_n/n:   o^2 * ssn2 = num_n^2 * (n-1)
        let nm1 = T::u(w.len().max(2) - 1);
        let general = Cond::And(vec![eq(o * o * ssn2, num_n * num_n * nm1), le(T::zero(), o * num_n)]);
        let full = Cond::Or(vec![Cond::And(vec![flat.clone(), when_flat]), Cond::And(vec![Cond::not(flat.clone()), general])]);
        let mut alts = vec![];
        // out = num/sqrt(rad) as built by the real code: num == numerator and rad == sample variance (polynomial), window not flat
        // (the quotient term exists only on the path where the view found its std non-zero, so "window not flat" is implied)
        let _ = &flat;
        if let Some((num, rad)) = o.ratio_sqrt_parts() { alts.push(Cond::And(vec![eq(num * nn, num_n), eq(rad * nm1 * nn * nn, ssn2)])); }
        alts.push(full);
        T::oblige_alt(&format!("{name}(N={n}) t={t}: out == {} over the last min(t,N) values", if centered { "(x-mean)/std (0 if std=0)" } else { "x/std (x if std=0)" }), alts);
    }
}

/// which input stream a harness reads: free variables, or a shaped stream built from a few symbolic parameters
#[derive(Clone, Copy, Debug, PartialEq)]
pub enum Shape { Free, Decreasing, Increasing, AltThenFlat(usize), Alternating, Cycle3, Free3ThenFlat, FlatThenFree3(usize) }
thread_local! { static SHAPE: std::cell::Cell<Shape> = const { std::cell::Cell::new(Shape::Free) }; }
/// the t-th input under the current shape (all harnesses of this module draw their inputs through this)
fn inp<T: Dom>(t: usize, prev: Option<T>) -> T {
    match SHAPE.with(|s| s.get()) {
        Shape::Free => T::input(&format!("x{t}")),
        // strictly monotone streams: every eviction removes the current extremum (the adversarial pattern for min/max upkeep)
        Shape::Decreasing => match prev { None => T::input("x0"), Some(p) => { let d = T::input(&format!("posd{t}")); T::assume(lt(T::zero(), d)); p - d } },
        Shape::Increasing => match prev { None => T::input("x0"), Some(p) => { let d = T::input(&format!("posd{t}")); T::assume(lt(T::zero(), d)); p + d } },
        // a long alternating stretch, then a flat run, then free values: long-lived state meets ties
        Shape::Alternating => T::input(if t % 2 == 0 { "a" } else { "b" }),
        Shape::Cycle3 => T::input(["a", "b", "c"][t % 3]),
        Shape::Free3ThenFlat => if t < 3 { T::input(&format!("x{t}")) } else { T::input("x2") },
        Shape::FlatThenFree3(k) => if t + 3 < k { T::input("c") } else { T::input(&format!("x{t}")) },
        Shape::AltThenFlat(l) => if t < l { if t % 2 == 0 { T::input("a") } else { T::input("b") } } else if t < l + 5 { T::input("c") } else { T::input(&format!("x{t}")) },
    }
}
fn shaped(shape: Shape, f: impl FnOnce()) { SHAPE.with(|s| s.set(shape)); f(); SHAPE.with(|s| s.set(Shape::Free)); }
fn sma_s<T: Dom>(n: usize, k: usize, sh: Shape) { shaped(sh, || sma::<T>(n, k)) }
fn cumulative_s<T: Dom>(n: usize, k: usize, sh: Shape) { shaped(sh, || cumulative::<T>(n, k)) }
fn minmax_s<T: Dom>(n: usize, k: usize, mx: bool, sh: Shape) { shaped(sh, || minmax::<T>(n, k, mx)) }
fn welford_s<T: Dom>(n: usize, k: usize, sh: Shape) { shaped(sh, || welford::<T>(n, k)) }
fn hln_s<T: Dom>(n: usize, k: usize, sh: Shape) { shaped(sh, || hln::<T>(n, k)) }
fn vst_s<T: Dom>(n: usize, k: usize, c: bool, sh: Shape) { shaped(sh, || vst::<T>(n, k, c)) }
fn roc_s<T: Dom>(n: usize, k: usize, sh: Shape) { shaped(sh, || roc::<T>(n, k)) }
pub fn units(tier: Tier, seed: u64) -> Vec<Unit> {
    let ns: Vec<usize> = if tier == Tier::Quick { vec![1, 2, 3] } else { vec![1, 2, 3, 4, 5] };
    let mut u = vec![];
    for &n in &ns {
        let k = 2 * n + 2;
        u.push(unit!(format!("C02/Sma/N={n}/k={k}"), sma(n, k)));
        u.push(unit!(format!("C02/Cumulative/N={n}/k={k}"), cumulative(n, k)));
        u.push(unit!(format!("C02/Min/N={n}/k={k}"), minmax(n, k, false)));
        u.push(unit!(format!("C02/Max/N={n}/k={k}"), minmax(n, k, true)));
        // the sqrt-normalised statistics are decided up to N=3 at full length; beyond that z3's nlsat does not finish, so N=4,5 run a shorter stream
        let kw = if n <= 3 { k } else { n + 2 };
        u.push(unit!(format!("C02/WelfordOnline/N={n}/k={kw}"), welford(n, kw)));
        u.push(unit!(format!("C02/Roc/N={n}/k={k}"), roc(n, k)));
        u.push(unit!(format!("C02/BinaryEntropy/N={n}/k={k}"), binary_entropy(n, k)));
        let kv = if n <= 4 { k } else { n + 2 };
        u.push(unit!(format!("C02/Vst/N={n}/k={kv}"), vst(n, kv, false)));
        u.push(unit!(format!("C02/Vsct/N={n}/k={kv}"), vst(n, kv, true)));
        if n <= 4 { u.push(unit!(format!("C02/HLNormalizer/N={n}/k={k}"), hln(n, k))); }
    }
    // larger windows and streams much longer than the window: the comparison path of pseudo-random sample inputs (concolic);
    // the obligations are still decided for every input that follows that path
    let big: Vec<(usize, usize)> = if tier == Tier::Quick { vec![(4, 10), (5, 12), (6, 14), (7, 16), (8, 18), (9, 20), (10, 22), (12, 26), (16, 34), (2, 40), (3, 60)] } else { vec![(6, 14), (8, 18), (12, 26), (16, 34), (32, 66), (2, 40), (3, 60), (5, 100)] };
    let first = u.len();
    for &(n, k) in &big {
        u.push(unit!(format!("C02/Sma/N={n}/k={k}/sample-path"), sma(n, k)));
        u.push(unit!(format!("C02/Cumulative/N={n}/k={k}/sample-path"), cumulative(n, k)));
        u.push(unit!(format!("C02/Min/N={n}/k={k}/sample-path"), minmax(n, k, false)));
        u.push(unit!(format!("C02/Max/N={n}/k={k}/sample-path"), minmax(n, k, true)));
        u.push(unit!(format!("C02/Roc/N={n}/k={k}/sample-path"), roc(n, k)));
        u.push(unit!(format!("C02/BinaryEntropy/N={n}/k={k}/sample-path"), binary_entropy(n, k)));
        if n <= 16 { u.push(unit!(format!("C02/WelfordOnline/N={n}/k={k}/sample-path"), welford(n, k.min(n + 12)))); u.push(unit!(format!("C02/Vst/N={n}/k={k}/sample-path"), vst(n, k.min(n + 12), false))); u.push(unit!(format!("C02/Vsct/N={n}/k={k}/sample-path"), vst(n, k.min(n + 12), true))); }
        if n <= 8 { u.push(unit!(format!("C02/HLNormalizer/N={n}/k={k}/sample-path"), hln(n, k.min(2 * n + 8)))); }
    }
    // boundary window lengths (powers of two and their neighbours) for the cheap views
    for &n in &(if tier == Tier::Quick { vec![31usize, 32, 33, 63, 64, 65] } else { vec![15usize, 17, 31, 32, 33, 63, 64, 65, 127, 128, 129] }) {
        let k = n + 6;
        u.push(unit!(format!("C02/Sma/N={n}/k={k}/sample-path"), sma(n, k)));
        u.push(unit!(format!("C02/Cumulative/N={n}/k={k}/sample-path"), cumulative(n, k)));
        u.push(unit!(format!("C02/Min/N={n}/k={k}/sample-path"), minmax(n, k, false)));
        u.push(unit!(format!("C02/Max/N={n}/k={k}/sample-path"), minmax(n, k, true)));
        u.push(unit!(format!("C02/Roc/N={n}/k={k}/sample-path"), roc(n, k)));
        u.push(unit!(format!("C02/BinaryEntropy/N={n}/k={k}/sample-path"), binary_entropy(n, k)));
    }
    // hundreds of evictions at a small window (periodic maintenance, wrapped ring buffers, saturating counters)
    for &(n, k) in &(if tier == Tier::Quick { vec![(5usize, 560usize), (7, 780), (6, 8300)] } else { vec![(3usize, 340usize), (5, 560), (7, 780), (10, 1100), (13, 1420)] }) {
        u.push(unit!(format!("C02/Sma/N={n}/k={k}/sample-path"), sma(n, k)));
        u.push(unit!(format!("C02/Cumulative/N={n}/k={k}/sample-path"), cumulative(n, k)));
        if k <= 800 {
            u.push(unit!(format!("C02/Min/N={n}/k={k}/sample-path"), minmax(n, k, false)));
            u.push(unit!(format!("C02/Max/N={n}/k={k}/sample-path"), minmax(n, k, true)));
        }
        u.push(unit!(format!("C02/Roc/N={n}/k={k}/sample-path"), roc(n, k)));
    }
    for (i, x) in u.iter_mut().enumerate().skip(first) { x.concolic = Some(seed * 31 + 1 + (i as u64 % 2)); x.budget_s = 60.0; x.max_decisions = 60000; }
    // all comparison outcomes (not a sampled path) far beyond the small windows, for the views that perform no comparison of their own:
    // any guard a change adds (a cancellation test, a threshold on a magnitude, a branch gated by a counter) is a branch here, at
    // window lengths >= 130 and after more than 256 updates
    let first = u.len();
    for &(n, k) in &[(130usize, 134usize), (200, 204), (3, 262), (5, 263)] {
        u.push(unit!(format!("C02/Sma/N={n}/k={k}/all-paths"), sma(n, k)));
        u.push(unit!(format!("C02/Cumulative/N={n}/k={k}/all-paths"), cumulative(n, k)));
        u.push(unit!(format!("C02/Roc/N={n}/k={k}/all-paths"), roc(n, k)));
    }
    for x in u.iter_mut().skip(first) { x.budget_s = 40.0; x.path_cap = 400; x.max_decisions = 60000; }
    // shaped long streams, fully symbolic (all comparison outcomes): strictly monotone streams of length 10N+6, where every eviction
    // removes the extremum, and "8N+2 alternating values, a flat run of 5, then free values", where long-lived state meets ties
    let first = u.len();
    let shaped_ns: Vec<usize> = if tier == Tier::Quick { vec![1, 2, 3] } else { vec![1, 2, 3, 4, 6] };
    for &n in &shaped_ns {
        let k = 10 * n + 6;
        for sh in [Shape::Decreasing, Shape::Increasing] {
            u.push(unit!(format!("C02/Min/N={n}/k={k}/{sh:?}"), minmax_s(n, k, false, sh)));
            u.push(unit!(format!("C02/Max/N={n}/k={k}/{sh:?}"), minmax_s(n, k, true, sh)));
            u.push(unit!(format!("C02/HLNormalizer/N={n}/k={k}/{sh:?}"), hln_s(n, k, sh)));
        }
        if n >= 2 {
            let l = 8 * n + 2;
            let sh = Shape::AltThenFlat(l);
            let k = l + 5 + 2;
            u.push(unit!(format!("C02/Sma/N={n}/k={k}/alt-then-flat"), sma_s(n, k, sh)));
            u.push(unit!(format!("C02/Cumulative/N={n}/k={k}/alt-then-flat"), cumulative_s(n, k, sh)));
            u.push(unit!(format!("C02/WelfordOnline/N={n}/k={k}/alt-then-flat"), welford_s(n, k, sh)));
            u.push(unit!(format!("C02/Vst/N={n}/k={k}/alt-then-flat"), vst_s(n, k, false, sh)));
            u.push(unit!(format!("C02/Vsct/N={n}/k={k}/alt-then-flat"), vst_s(n, k, true, sh)));
            u.push(unit!(format!("C02/Roc/N={n}/k={k}/alt-then-flat"), roc_s(n, k, sh)));
            u.push(unit!(format!("C02/Max/N={n}/k={k}/alt-then-flat"), minmax_s(n, k, true, sh)));
        }
    }
    // windows of 10 and more on fully symbolic streams built from two or three parameters (ties between values a window apart are branches)
    for &n in &(if tier == Tier::Quick { vec![10usize, 11] } else { vec![7usize, 10, 11, 13, 16] }) {
        let k = n + 8;
        for sh in [Shape::Alternating, Shape::Cycle3, Shape::Free3ThenFlat, Shape::FlatThenFree3(k)] {
            u.push(unit!(format!("C02/Sma/N={n}/k={k}/{sh:?}"), sma_s(n, k, sh)));
            u.push(unit!(format!("C02/Cumulative/N={n}/k={k}/{sh:?}"), cumulative_s(n, k, sh)));
            u.push(unit!(format!("C02/Min/N={n}/k={k}/{sh:?}"), minmax_s(n, k, false, sh)));
            u.push(unit!(format!("C02/Max/N={n}/k={k}/{sh:?}"), minmax_s(n, k, true, sh)));
            u.push(unit!(format!("C02/WelfordOnline/N={n}/k={k}/{sh:?}"), welford_s(n, k, sh)));
            u.push(unit!(format!("C02/HLNormalizer/N={n}/k={k}/{sh:?}"), hln_s(n, k, sh)));
            u.push(unit!(format!("C02/Roc/N={n}/k={k}/{sh:?}"), roc_s(n, k, sh)));
            u.push(unit!(format!("C02/Vsct/N={n}/k={k}/{sh:?}"), vst_s(n, k, true, sh)));
        }
    }
    // the two periodic shapes at window lengths around every multiple of 16 (block-wise scans, lane remainders), all comparison outcomes
    for &n in &(if tier == Tier::Quick { vec![15usize, 16, 17, 33, 49, 64] } else { vec![15usize, 16, 17, 31, 32, 33, 34, 47, 48, 49, 63, 64, 65, 128, 129] }) {
        let k = n + 8;
        for sh in [Shape::Alternating, Shape::Cycle3] {
            u.push(unit!(format!("C02/Sma/N={n}/k={k}/{sh:?}"), sma_s(n, k, sh)));
            u.push(unit!(format!("C02/Min/N={n}/k={k}/{sh:?}"), minmax_s(n, k, false, sh)));
            u.push(unit!(format!("C02/Max/N={n}/k={k}/{sh:?}"), minmax_s(n, k, true, sh)));
            u.push(unit!(format!("C02/HLNormalizer/N={n}/k={k}/{sh:?}"), hln_s(n, k, sh)));
            u.push(unit!(format!("C02/Roc/N={n}/k={k}/{sh:?}"), roc_s(n, k, sh)));
            if n <= 49 { u.push(unit!(format!("C02/WelfordOnline/N={n}/k={k}/{sh:?}"), welford_s(n, k, sh))); }
        }
    }
    for x in u.iter_mut().skip(first) { x.budget_s = if tier == Tier::Quick { 30.0 } else { 300.0 }; x.path_cap = 3000; x.max_decisions = 60000; }
    u
}
pub fn meta() -> Meta {
    Meta {
        functions: vec!["Sma::{update,last}", "Cumulative::{update,last}", "Min::{update,last}", "Max::{update,last}", "WelfordOnline::{update,last,mean,variance}", "HLNormalizer::{update,last}", "Roc::{update,last}", "BinaryEntropy::{update,last}", "Vst::{update,last}", "Vsct::{update,last}", "Echo::{update,last}"],
        bounds: "window length N in {1,2,3} (quick) / {1..5} (thorough; HLNormalizer to 4); stream length k = 2N+2 so every value enters and leaves the window; inputs are unconstrained reals; every feasible outcome of every comparison the real code performs is explored; in addition every N in 4..10, 12, 16 at k=2N+2, (2,40),(3,60), and the boundary lengths 31,32,33,63,64,65 at k=N+6 for the cheap views (quick) / up to (32,66),(5,100) (thorough) along the comparison path of a pseudo-random sample input (larger windows, streams much longer than the window); and fully symbolic shaped long streams for N in {1,2,3} (quick) / {1,2,3,4,6}: strictly decreasing / increasing streams of length 10N+6 for Min/Max/HLNormalizer, and 8N+2 alternating values + a flat run of 5 + 2 free values for Sma/Cumulative/WelfordOnline/Vst/Vsct/Roc/Max; and N in {10,11} (quick) / {7,10,11,13,16} on alternating / period-3 / three-free-then-flat / flat-then-three-free symbolic streams; Sma/Cumulative/Min/Max/Roc also for (N,k) in {(5,560),(7,780),(6,8300: Sma, Cumulative, Roc only)} (quick) / {(3,340),(5,560),(7,780),(10,1100),(13,1420)} — more than 100 N evictions — along a sampled comparison path; Sma/Cumulative/Roc on all comparison paths (fully symbolic) at (N,k) in {(130,134),(200,204),(3,262),(5,263)}, up to 400 paths; Sma/Min/Max/HLNormalizer/Roc/WelfordOnline on streams alternating between two, and cycling through three, symbolic values (all comparison outcomes) at N in {15,16,17,33,49,64} (quick) / {15..17,31..34,47..49,63..65,128,129}",
        outside: vec!["N > 5, streams longer than 2N+2", "the f64 clause ('differs only by rounding noise'): obligations are decided over the reals", "overflow, -0.0, subnormals"],
        assumptions: vec!["BinaryEntropy: log2 of the (concrete, per-path) window fraction is evaluated with the platform libm and compared to 1e-12"],
    }
}
