//! C04 — Sma, Ema, Alma are genuine averages: inside the hull of what they average, exact on
//! constants, monotone, commute with x -> a*x+b (a>0), Ema follows its recurrence, Alma is the
//! Gaussian-kernel weighted mean.
use crate::dom::*;
use crate::props::{Meta, Tier};
use crate::run::Unit;
use crate::sym::Cond;
use crate::unit;
use crate::views::*;
use sliding_features::{pure_functions::Echo, sliding_windows::*, View};

#[derive(Clone, Copy, Debug, PartialEq)]
pub enum Ma { Sma, Ema, Alma, AlmaCustom(f64, f64) }
fn mk<T: Dom>(m: Ma, n: usize) -> DynV<T> {
    match m { Ma::Sma => DynV::new(Sma::new(Echo::<T>::new(), n)), Ma::Ema => DynV::new(Ema::new(Echo::<T>::new(), n)), Ma::Alma => DynV::new(Alma::new(Echo::<T>::new(), n)),
        Ma::AlmaCustom(s, o) => DynV::new(Alma::new_custom(Echo::<T>::new(), n, T::c(s), T::c(o))) }
}
fn in_hull<T: Dom>(o: T, w: &[T]) -> Cond<T> { Cond::And(vec![Cond::Or(w.iter().map(|y| le(*y, o)).collect()), Cond::Or(w.iter().map(|y| le(o, *y)).collect())]) }

fn hull<T: Dom>(m: Ma, n: usize, k: usize) {
    let mut v = mk::<T>(m, n);
    let mut h = vec![];
    for t in 0..k {
        let x = T::input(&format!("x{t}"));
        h.push(x);
        v.update(x);
        if let Some(o) = v.last() {
            let w: &[T] = if m == Ma::Ema { &h } else { window(&h, n) };
            T::oblige(&format!("{m:?}(N={n}) t={t}: min <= out <= max of the values it averages"), in_hull(o, w));
        }
    }
}
fn constant<T: Dom>(m: Ma, n: usize, k: usize) {
    let mut v = mk::<T>(m, n);
    let c = T::input("c");
    for t in 0..k {
        v.update(c);
        if let Some(o) = v.last() { T::oblige(&format!("{m:?}(N={n}) t={t}: a constant stream c is reproduced exactly"), eq(o, c)); }
    }
}
fn monotone<T: Dom>(m: Ma, n: usize, k: usize) {
    let (mut v, mut u) = (mk::<T>(m, n), mk::<T>(m, n));
    for t in 0..k {
        let x = T::input(&format!("x{t}"));
        let d = T::input(&format!("d{t}"));
        T::assume(le(T::zero(), d));
        v.update(x);
        u.update(x + d);
        match (v.last(), u.last()) {
            (Some(a), Some(b)) => T::oblige(&format!("{m:?}(N={n}) t={t}: raising inputs never lowers the output"), le(a, b)),
            (None, None) => {}
            _ => T::oblige(&format!("{m:?}(N={n}) t={t}: readiness independent of values"), Cond::Bool(false)),
        }
    }
}
fn affine<T: Dom>(m: Ma, n: usize, k: usize) {
    let (mut v, mut u) = (mk::<T>(m, n), mk::<T>(m, n));
    let (a, b) = (T::input("a"), T::input("b"));
    T::assume(lt(T::zero(), a));
    for t in 0..k {
        let x = T::input(&format!("x{t}"));
        v.update(x);
        u.update(a * x + b);
        match (v.last(), u.last()) {
            (Some(p), Some(q)) => T::oblige(&format!("{m:?}(N={n}) t={t}: view(a*x+b) == a*view(x)+b for a>0"), eq(q, a * p + b)),
            (None, None) => {}
            _ => T::oblige(&format!("{m:?}(N={n}) t={t}: readiness independent of values"), Cond::Bool(false)),
        }
    }
}
/// Ema recurrence e_0 = x_0, e_t = w x_t + (1-w) e_(t-1), w = alpha/(N+1); ready from the N-th value
fn ema_rec<T: Dom>(n: usize, k: usize, sym_alpha: bool) {
    let alpha = if sym_alpha { let a = T::input("alpha"); T::assume(Cond::between(T::zero(), a, T::u(n + 1))); a } else { T::c(2.0) };
    let mut v = if sym_alpha { Ema::with_alpha(Echo::<T>::new(), n, alpha) } else { Ema::new(Echo::<T>::new(), n) };
    let w = alpha / T::u(n + 1);
    let mut e: Option<T> = None;
    for t in 0..k {
        let x = T::input(&format!("x{t}"));
        v.update(x);
        e = Some(match e { None => x, Some(p) => w * x + (T::one() - w) * p });
        match v.last() {
            Some(o) => { T::oblige(&format!("Ema(N={n}) t={t}: out == w*x_t + (1-w)*e_(t-1), e_0 = x_0"), eq(o, e.unwrap())); T::oblige(&format!("Ema(N={n}) t={t}: reports only from the N-th value"), Cond::Bool(t + 1 >= n)); }
            None => T::oblige(&format!("Ema(N={n}) t={t}: reports from the N-th value on"), Cond::Bool(t + 1 < n)),
        }
    }
}
/// Alma == sum w_j x_j / sum w_j with the spec's own Gaussian weights (computed in plain f64)
fn alma_def<T: Dom>(n: usize, k: usize, sigma: f64, offset: f64) {
    let mut v = Alma::new_custom(Echo::<T>::new(), n, T::c(sigma), T::c(offset));
    let (mm, s) = (offset * (n as f64 + 1.0), n as f64 / sigma);
    let wt = |p: usize| (-(p as f64 - mm).powi(2) / (2.0 * s * s)).exp();
    let mut h: Vec<(T, f64)> = vec![];
    for t in 0..k {
        let x = T::input(&format!("x{t}"));
        T::assume(abs_le(x, T::one()));
        let pos = (t + 1).min(n) - 1; // fill position at insertion
        h.push((x, wt(pos)));
        v.update(x);
        let w = window(&h, n);
        let num = w.iter().fold(T::zero(), |a, (x, w)| a + T::c(*w) * *x);
        let den: f64 = w.iter().map(|(_, w)| *w).sum();
        match v.last() {
            Some(o) => T::oblige(&format!("Alma(N={n},sigma={sigma},offset={offset}) t={t}: out == Gaussian-kernel weighted mean of the window (|.|<=1e-9 on |x|<=1)"), close(o * T::c(den), num, T::c(1e-9 * den))),
            None => T::oblige(&format!("Alma(N={n}) t={t}: has a value"), Cond::Bool(false)),
        }
    }
}

pub fn units(tier: Tier, _seed: u64) -> Vec<Unit> {
    let ns: Vec<usize> = if tier == Tier::Quick { vec![1, 2, 3, 4, 5, 7, 8, 13, 16] } else { vec![1, 2, 3, 4, 5, 6, 7, 8, 9, 10, 12, 13, 16, 20, 32] };
    let mut u = vec![];
    for &n in &ns {
        let k = 2 * n + 2;
        let mas = [Ma::Sma, Ma::Ema, Ma::Alma, Ma::AlmaCustom(3.0, 0.5), Ma::AlmaCustom(9.0, 1.0), Ma::AlmaCustom(1.5, 0.1)];
        for m in mas {
            let kk = if matches!(m, Ma::Alma | Ma::AlmaCustom(..)) { 3 * n + 1 } else { k };
            u.push(unit!(format!("C04/hull/{m:?}/N={n}/k={kk}"), hull(m, n, kk)));
            u.push(unit!(format!("C04/constant/{m:?}/N={n}/k={kk}"), constant(m, n, kk)));
            u.push(unit!(format!("C04/monotone/{m:?}/N={n}/k={kk}"), monotone(m, n, kk)));
            if n <= 4 { u.push(unit!(format!("C04/affine/{m:?}/N={n}/k={kk}"), affine(m, n, kk))); }
        }
        u.push(unit!(format!("C04/ema-recurrence/alpha=2/N={n}/k={k}"), ema_rec(n, k, false)));
        if n <= (if tier == Tier::Thorough { 3 } else { 2 }) { u.push(unit!(format!("C04/ema-recurrence/alpha=symbolic/N={n}/k={k}"), ema_rec(n, k.min(6), true))); }
        for (s, o) in [(6.0, 0.85), (3.0, 0.5), (9.0, 1.0), (1.5, 0.1)] {
            let kk = 3 * n + 1;
            u.push(unit!(format!("C04/alma-definition/sigma={s}/offset={o}/N={n}/k={kk}"), alma_def(n, kk, s, o)));
        }
    }
    // far beyond the small windows and after more than 256 updates: these views perform no comparison of their own, so any value-dependent
    // guard a change adds becomes a branch that is explored on both sides
    let first = u.len();
    for &(n, k) in &[(130usize, 134usize), (200, 204), (3, 262), (5, 263)] {
        for m in [Ma::Sma, Ma::Alma, Ma::Ema] {
            if matches!(m, Ma::Alma) && n > 100 { continue; }
            if matches!(m, Ma::Ema) && std::env::var("VERIF_EMA_LONG").is_err() { continue; }
            u.push(unit!(format!("C04/hull/{m:?}/N={n}/k={k}"), hull(m, n, k)));
            u.push(unit!(format!("C04/constant/{m:?}/N={n}/k={k}"), constant(m, n, k)));
        }
    }
    for x in u.iter_mut().skip(first) { x.budget_s = 40.0; x.path_cap = 400; x.max_decisions = 60000; }
    u
}
pub fn meta() -> Meta {
    Meta {
        functions: vec!["Sma::{new,update,last}", "Ema::{new,with_alpha,update,last}", "Alma::{new,new_custom,update,last}", "Echo::{update,last}"],
        bounds: "N in {1,2,3,4,5,7,8,13,16} (quick) / {1..10,12,13,16,20,32} (thorough) — these views do not branch on values, so every N is a single path; k = 2N+2 (3N+1 for Alma); hull and constant-in/constant-out of Sma and Alma also at (N,k) in {(130,134),(200,204),(3,262),(5,263)} (Alma: the two long runs only); inputs unconstrained reals (|x|<=1 for the Alma kernel obligation); a>0, b, c and the monotone increments d>=0 are solver variables; Ema alpha = 2 and symbolic alpha in [0,N+1] (N<=2 quick, N<=3 thorough); Alma (sigma,offset) in {(6,.85),(3,.5),(9,1),(1.5,.1)}; every comparison outcome explored (Ema's state==0 test is a branch)",
        outside: vec!["N > 6, longer streams", "arbitrary real sigma/offset (four concrete pairs are checked)", "f64 rounding"],
        assumptions: vec!["Alma weights: exp() of a concrete argument is evaluated by the platform libm; the oracle computes its own weights in plain f64 and the comparison allows 1e-9"],
    }
}
