//! C01, statically typed compositions. The catalogue of c01.rs composes views through `Box<dyn View<T>>`, which forwards
//! only `update`/`last`; a wrapper that talks to its inner view through any *other* trait method (present or future, e.g. an
//! overridable readiness query) would bypass that indirection. Here the chains are ordinary nested generic types, exactly as
//! a user writes them, so whatever the real wrapper calls on the real inner type is what runs.
use crate::dom::*;
use crate::run::Unit;
use crate::sym::Cond;
use crate::unit;
use sliding_features::{pure_functions::*, rolling::*, sliding_windows::*, View};

/// chain = outer(inner), `alone` = the same outer over Echo, `inner` = a stand-alone copy of the inner (possibly composite) view
fn run_static<T: Dom, C: View<T>, I: View<T>, O: View<T>>(mut chain: C, mut inner: I, mut alone: O, k: usize, name: &str) {
    for t in 0..k {
        let x = T::input(&format!("x{t}"));
        chain.update(x);
        inner.update(x);
        if let Some(v) = inner.last() { alone.update(v); }
        T::oblige(&format!("{name} t={t}: statically typed chain identical to feeding the stand-alone inner view into the stand-alone outer view"), opt_ident(chain.last(), alone.last()));
    }
}
/// chain = outer(op(a, b)); stand-alone a and b, combined only when both report, fed into the outer view over Echo
fn run_static_comb<T: Dom, C: View<T>, A: View<T>, B: View<T>, O: View<T>>(mut chain: C, mut a: A, mut b: B, mut alone: O, op: usize, k: usize, name: &str) {
    for t in 0..k {
        let x = T::input(&format!("x{t}"));
        chain.update(x);
        a.update(x);
        b.update(x);
        if let (Some(p), Some(q)) = (a.last(), b.last()) {
            if op == 3 && q == T::zero() { T::oblige(&format!("{name} t={t}: divisor is zero on this path (out of domain, scenario ends)"), Cond::Bool(true)); return; }
            alone.update(match op { 0 => p + q, 1 => p - q, 2 => p * q, _ => p / q });
        }
        T::oblige(&format!("{name} t={t}: statically typed chain over a combinator identical to the stand-alone pipeline"), opt_ident(chain.last(), alone.last()));
    }
}
macro_rules! inner_views { ($m:ident) => {
    $m!(i_sma2, Sma::new(Echo::<T>::new(), 2));
    $m!(i_ema3, Ema::new(Echo::<T>::new(), 3));
    $m!(i_cti_sma, CorrelationTrendIndicator::new(Sma::new(Echo::<T>::new(), 2), 3));
    $m!(i_cti_ema, CorrelationTrendIndicator::new(Ema::new(Echo::<T>::new(), 2), 3));
    $m!(i_roc_sma, Roc::new(Sma::new(Echo::<T>::new(), 2), 1));
    $m!(i_hln_ss, HLNormalizer::new(SuperSmoother::new(Echo::<T>::new(), 2), 2));
    $m!(i_tanh_sma, Tanh::new(Sma::new(Echo::<T>::new(), 2)));
    $m!(i_drawdownless, Cumulative::new(Ema::new(Echo::<T>::new(), 2), 2));
} }
macro_rules! outer_over { ($fname:ident, |$i:ident| $outer:expr, $k:expr) => {
    fn $fname<T: Dom>(which: usize) {
        macro_rules! one { ($iname:ident, $inner:expr) => {{
            let chain = { let $i = $inner; $outer };
            let alone = { let $i = Echo::<T>::new(); $outer };
            run_static::<T, _, _, _>(chain, $inner, alone, $k, concat!(stringify!($fname), " over ", stringify!($iname)));
        }} }
        let mut n = 0usize;
        macro_rules! pick { ($iname:ident, $inner:expr) => { if which == n { one!($iname, $inner); return; } n += 1; } }
        inner_views!(pick);
        let _ = n;
    }
} }
const N_INNER: usize = 8;
outer_over!(o_sma2, |i| Sma::new(i, 2), 7);
outer_over!(o_ema2, |i| Ema::new(i, 2), 7);
outer_over!(o_gte, |i| GTE::new(i, T::c(0.25)), 6);
outer_over!(o_lte, |i| LTE::new(i, T::c(0.25)), 6);
outer_over!(o_tanh, |i| Tanh::new(i), 7);
outer_over!(o_min2, |i| Min::new(i, 2), 6);
outer_over!(o_cumulative2, |i| Cumulative::new(i, 2), 7);
outer_over!(o_alma2, |i| Alma::new(i, 2), 7);
outer_over!(o_welford_rolling, |i| WelfordRolling::new(i), 7);
outer_over!(o_supersmoother2, |i| SuperSmoother::new(i, 2), 7);
outer_over!(o_cybercycle, |i| CyberCycle::new(i, 3), 10);
outer_over!(o_roc1, |i| Roc::new(i, 1), 6);

macro_rules! over_comb { ($fname:ident, |$i:ident| $outer:expr) => {
    fn $fname<T: Dom>(op: usize, pair: usize) {
        macro_rules! go { ($comb:ident, $a:expr, $b:expr) => {{
            let chain = { let $i = $comb::new($a, $b); $outer };
            let alone = { let $i = Echo::<T>::new(); $outer };
            run_static_comb::<T, _, _, _, _>(chain, $a, $b, alone, op, 6, concat!(stringify!($fname), " over ", stringify!($comb)));
        }} }
        macro_rules! pairs { ($comb:ident) => { match pair {
            0 => go!($comb, Sma::new(Echo::<T>::new(), 2), Sma::new(Echo::<T>::new(), 2)),
            1 => go!($comb, Sma::new(Echo::<T>::new(), 3), Cumulative::new(Echo::<T>::new(), 2)),
            2 => go!($comb, Ema::new(Echo::<T>::new(), 2), Min::new(Echo::<T>::new(), 2)),
            _ => go!($comb, Echo::<T>::new(), Sma::new(Echo::<T>::new(), 2)),
        } } }
        match op { 0 => pairs!(Add), 1 => pairs!(Subtract), 2 => pairs!(Multiply), _ => pairs!(Divide) }
    }
} }
over_comb!(c_gte, |i| GTE::new(i, T::c(0.25)));
over_comb!(c_lte, |i| LTE::new(i, T::c(0.25)));
over_comb!(c_tanh_gte, |i| Tanh::new(GTE::new(i, T::c(-0.5))));
over_comb!(c_sma2, |i| Sma::new(i, 2));
over_comb!(c_ema2, |i| Ema::new(i, 2));
over_comb!(c_min2, |i| Min::new(i, 2));

pub fn units(quick: bool) -> Vec<Unit> {
    let mut u = vec![];
    macro_rules! add_outer { ($f:ident) => { for w in 0..N_INNER { u.push(unit!(format!("C01/static/{}/inner#{w}", stringify!($f)), $f(w))); } } }
    add_outer!(o_sma2); add_outer!(o_ema2); add_outer!(o_gte); add_outer!(o_lte); add_outer!(o_tanh); add_outer!(o_min2);
    add_outer!(o_cumulative2); add_outer!(o_alma2); add_outer!(o_welford_rolling); add_outer!(o_supersmoother2); add_outer!(o_cybercycle); add_outer!(o_roc1);
    macro_rules! add_comb { ($f:ident) => { for op in 0..4usize { for pair in 0..4usize { u.push(unit!(format!("C01/static/{}/{}/pair#{pair}", stringify!($f), crate::views::BINOPS[op]), $f(op, pair))); } } } }
    add_comb!(c_gte); add_comb!(c_lte); add_comb!(c_tanh_gte); add_comb!(c_sma2); add_comb!(c_ema2); add_comb!(c_min2);
    for x in u.iter_mut() { x.path_cap = if quick { 800 } else { 5000 }; x.budget_s = if quick { 3.0 } else { 120.0 }; x.branch_nl_timeout_ms = Some(300); }
    u
}
