//! C12 — normalised indicators are invariant to units, offset and sign (two-run product with symbolic a, b).
use crate::dom::*;
use crate::props::{Meta, Tier};
use crate::run::Unit;
use crate::sym::Cond;
use crate::unit;
use crate::views::*;
use sliding_features::View;

#[derive(Clone, Copy, Debug, PartialEq)]
pub enum Tr { Affine, Scale, ScaleBy(f64), AffineBy(f64), Negate }
#[derive(Clone, Copy, Debug, PartialEq)]
pub enum Rel { Same, Scaled, Negated, HundredMinus }
/// `from`/`until`: obligations are stated only at steps from <= t < until (used to separate CTI's partial window)
thread_local! { /// > 0: the stream cycles through that many symbolic values (ties a whole period apart at any window length)
    static PERIOD: std::cell::Cell<usize> = const { std::cell::Cell::new(0) }; }
fn stream_value<T: Dom>(t: usize, positive: bool) -> T {
    let p = PERIOD.with(|p| p.get());
    let x = if p > 0 { T::input(&format!("{}c{}", if positive { "pos" } else { "" }, t % p)) } else { T::input(&format!("x{t}")) };
    if positive { T::assume(lt(T::zero(), x)); }
    x
}
fn relate_cyc<T: Dom>(vk: VK, k: usize, tr: Tr, rel: Rel, from: usize, period: usize) { PERIOD.with(|p| p.set(period)); let r = std::panic::catch_unwind(std::panic::AssertUnwindSafe(|| relate::<T>(vk, k, tr, rel, from, usize::MAX))); PERIOD.with(|p| p.set(0)); if let Err(e) = r { std::panic::resume_unwind(e); } }
fn minmax_swap_cyc<T: Dom>(n: usize, k: usize, period: usize) { PERIOD.with(|p| p.set(period)); let r = std::panic::catch_unwind(std::panic::AssertUnwindSafe(|| minmax_swap::<T>(n, k))); PERIOD.with(|p| p.set(0)); if let Err(e) = r { std::panic::resume_unwind(e); } }
fn relate<T: Dom>(vk: VK, k: usize, tr: Tr, rel: Rel, from: usize, until: usize) {
    let (mut v, mut u) = (build::<T>(&vk, echo()), build::<T>(&vk, echo()));
    let a = match tr { Tr::Affine | Tr::Scale => { let a = T::input("posa"); T::assume(lt(T::zero(), a)); a } Tr::ScaleBy(c) | Tr::AffineBy(c) => T::c(c), Tr::Negate => -T::one() };
    let b = match tr { Tr::Affine | Tr::AffineBy(_) => T::input("b"), _ => T::zero() };
    let positive = vk.needs_positive();
    let n = match &vk { VK::Rsi(n) => *n, _ => 1 };
    let mut h: Vec<T> = vec![];
    for t in 0..k {
        let x = stream_value::<T>(t, positive);
        h.push(x);
        v.update(x);
        u.update(if tr == Tr::Negate { -x } else { a * x + b });
        let name = format!("{} t={t}", vk.name());
        if t < from || t >= until { continue; }
        // Vst reports the raw value while its window is flat (std = 0, as C02 prescribes): the scale relation is for non-degenerate windows
        let degenerate = match (&vk, tr) { (VK::Vst(n), Tr::Scale | Tr::ScaleBy(_)) => { let w = window(&h, *n); Some(Cond::And(w.iter().map(|y| eq(*y, w[0])).collect::<Vec<_>>())) } _ => None };
        match (v.last(), u.last()) {
            (None, None) => {}
            (Some(p), Some(q)) => {
                let c = match rel { Rel::Same => eq(q, p), Rel::Scaled => eq(q, a * p), Rel::Negated => eq(q, -p), Rel::HundredMinus => {
                    let w = &h[h.len().saturating_sub(n + 1)..];
                    Cond::Or(vec![Cond::And(w.windows(2).map(|z| eq(z[0], z[1])).collect()), eq(q, T::c(100.0) - p)]) } };
                let what = match (tr, rel) { (Tr::Negate, Rel::Negated) => "view(-x) == -view(x)".to_string(), (Tr::Negate, Rel::HundredMinus) => "Rsi(-x) == 100 - Rsi(x) unless the window is flat".into(),
                    (Tr::Affine, _) => "view(a*x+b) == view(x) for all a>0, b".into(), (Tr::AffineBy(c), _) => format!("view({c}*x+b) == view(x) for all b"), (Tr::Scale, Rel::Same) => "view(a*x) == view(x) for all a>0".into(), (Tr::ScaleBy(c), Rel::Same) => format!("view({c}*x) == view(x)"),
                    (Tr::Scale, _) => "view(a*x) == a*view(x) for all a>0".into(), (Tr::ScaleBy(c), _) => format!("view({c}*x) == {c}*view(x)"), _ => format!("{tr:?} {rel:?}") };
                let c = match degenerate { Some(d) => Cond::Or(vec![d, c]), None => c };
                // for outputs of the form num/sqrt(rad) try the polynomial conditions on the parts first
                // x -> a*x+b: numerator scales by a, radicand by a^2 (the offset cancels in both); x -> -x: numerator negated, radicand unchanged
                let alts = match rel { Rel::Same => rel_alts(q, p, a, c, false), Rel::Negated => rel_alts(q, p, -T::one(), c, true), _ => vec![c] };
                T::oblige_alt(&format!("{name}: {what}"), alts);
            }
            _ => T::oblige(&format!("{name}: readiness unchanged by the transformation"), Cond::Bool(false)),
        }
    }
}
/// Min(-x) == -Max(x) and Max(-x) == -Min(x)
fn minmax_swap<T: Dom>(n: usize, k: usize) {
    let (mut mn, mut mx, mut nmn, mut nmx) = (build::<T>(&VK::Min(n), echo()), build::<T>(&VK::Max(n), echo()), build::<T>(&VK::Min(n), echo()), build::<T>(&VK::Max(n), echo()));
    for t in 0..k {
        let x = stream_value::<T>(t, false);
        mn.update(x); mx.update(x); nmn.update(-x); nmx.update(-x);
        match (mn.last(), mx.last(), nmn.last(), nmx.last()) { (Some(a), Some(b), Some(c), Some(d)) => T::oblige(&format!("Min/Max(N={n}) t={t}: Min(-x) == -Max(x) and Max(-x) == -Min(x)"), Cond::And(vec![eq(c, -b), eq(d, -a)])), _ => T::oblige(&format!("Min/Max(N={n}) t={t}: have values"), Cond::Bool(false)) }
    }
}
pub fn units(tier: Tier, _seed: u64) -> Vec<Unit> {
    let q = tier == Tier::Quick;
    let ns: Vec<usize> = if q { vec![2] } else { vec![2, 3, 4] };
    let mut u = vec![];
    for &n in &ns {
        let k = n + 3;
        let m3 = n.max(3);
        // (view, stream length, transformation, relation, symbolic scale feasible?)
        let mut rows: Vec<(VK, usize, Tr, Rel)> = vec![];
        // invariant under a*x+b
        for vk in [VK::HLNormalizer(n), VK::Vsct(n), VK::CTI(m3), VK::NET(m3)] { rows.push((vk, k.max(m3 + 2), Tr::Affine, Rel::Same)); }
        if n <= 3 { rows.push((VK::EFT(n, Box::new(VK::Echo)), n + 3, Tr::Affine, Rel::Same)); }
        // invariant under a*x
        for vk in [VK::Rsi(n), VK::MyRSI(n), VK::Roc(n), VK::CoG(n), VK::BinaryEntropy(n), VK::Vst(n)] { rows.push((vk, k, Tr::Scale, Rel::Same)); }
        if n <= 3 { rows.push((VK::LaguerreRSI(n), if q { 3 } else { 4 }, Tr::Scale, Rel::Same)); }
        rows.push((VK::TrendFlex(m3), 5, Tr::Scale, Rel::Same));
        rows.push((VK::ReFlex(m3), 5, Tr::Scale, Rel::Same));
        if n == 2 { rows.push((VK::LnReturn, 5, Tr::Scale, Rel::Same)); rows.push((VK::Drawdown, 5, Tr::Scale, Rel::Same)); }
        // scaled by a
        for vk in [VK::Min(n), VK::Max(n), VK::Sma(n), VK::Ema(n), VK::Alma(n), VK::Cumulative(n), VK::WelfordOnline(n), VK::SuperSmoother(n), VK::Roofing(n, 2), VK::CyberCycle(m3)] { rows.push((vk, k.max(5), Tr::Scale, Rel::Scaled)); }
        if n == 2 { rows.push((VK::LaguerreFilter(0.5), 6, Tr::Scale, Rel::Scaled)); rows.push((VK::LaguerreFilter(0.8), 6, Tr::Scale, Rel::Scaled)); }
        // negation
        for vk in [VK::HLNormalizer(n), VK::Vsct(n), VK::Vst(n), VK::MyRSI(n), VK::CTI(m3), VK::NET(m3)] { rows.push((vk, k.max(m3 + 2), Tr::Negate, Rel::Negated)); }
        rows.push((VK::TrendFlex(m3), 5, Tr::Negate, Rel::Negated));
        rows.push((VK::ReFlex(m3), 5, Tr::Negate, Rel::Negated));
        rows.push((VK::Rsi(n), k + 1, Tr::Negate, Rel::HundredMinus));
        for (vk, kk, tr, rel) in rows {
            if let (VK::CTI(w), Tr::Affine) = (&vk, tr) {
                // CTI's formula is a correlation only once the window is full; the partial window is a known finding
                u.push(unit!(format!("C12/{:?}-{:?}/{}/full-window/k={kk}", tr, rel, vk.name()), relate(vk.clone(), kk, tr, rel, w - 1, usize::MAX)));
                u.push(unit!(format!("C12/{:?}-{:?}/{}/partial-window/k={kk}", tr, rel, vk.name()), relate(vk.clone(), kk, tr, rel, 0usize, w - 1)));
                continue;
            }
            u.push(unit!(format!("C12/{:?}-{:?}/{}/k={kk}", tr, rel, vk.name()), relate(vk.clone(), kk, tr, rel, 0usize, usize::MAX)));
        }
        u.push(unit!(format!("C12/Negate-swap/Min,Max({n})/k={k}"), minmax_swap(n, k + 1)));
    }
    for x in u.iter_mut() { x.budget_s = if q { 120.0 } else { 900.0 }; }
    // larger windows along sampled comparison paths (the scale a and offset b stay symbolic)
    let first_big = u.len();
    for &n in &(if q { vec![8usize] } else { vec![6usize, 8, 12, 16] }) {
        let k = n + 3;
        for (vk, tr, rel) in [(VK::HLNormalizer(n), Tr::Affine, Rel::Same), (VK::Vsct(n), Tr::Affine, Rel::Same), (VK::NET(n.min(10)), Tr::Affine, Rel::Same), (VK::Rsi(n), Tr::Scale, Rel::Same), (VK::MyRSI(n), Tr::Scale, Rel::Same), (VK::Roc(n), Tr::Scale, Rel::Same),
            (VK::CoG(n), Tr::Scale, Rel::Same), (VK::BinaryEntropy(n), Tr::Scale, Rel::Same), (VK::Vst(n), Tr::Scale, Rel::Same), (VK::Min(n), Tr::Scale, Rel::Scaled), (VK::Max(n), Tr::Scale, Rel::Scaled), (VK::Sma(n), Tr::Scale, Rel::Scaled), (VK::Ema(n), Tr::Scale, Rel::Scaled),
            (VK::Alma(n), Tr::Scale, Rel::Scaled), (VK::Cumulative(n), Tr::Scale, Rel::Scaled), (VK::WelfordOnline(n), Tr::Scale, Rel::Scaled), (VK::SuperSmoother(n), Tr::Scale, Rel::Scaled), (VK::CyberCycle(n), Tr::Scale, Rel::Scaled),
            (VK::HLNormalizer(n), Tr::Negate, Rel::Negated), (VK::MyRSI(n), Tr::Negate, Rel::Negated), (VK::Rsi(n), Tr::Negate, Rel::HundredMinus)] {
            u.push(unit!(format!("C12/{:?}-{:?}/{}/k={k}/sample-path", tr, rel, vk.name()), relate(vk.clone(), k, tr, rel, 0usize, usize::MAX)));
        }
        u.push(unit!(format!("C12/Negate-swap/Min,Max({n})/k={k}/sample-path"), minmax_swap(n, k)));
    }
    for x in u.iter_mut().skip(first_big) { x.concolic = Some(5); x.budget_s = 30.0; x.max_decisions = 60000; }
    // streams cycling through two or three symbolic values, all comparison outcomes: the extreme is evicted and re-found, and the
    // largest and smallest values are duplicated, at window lengths around every multiple of 16 (block-wise scans, sort-based counts)
    let first_cyc = u.len();
    for &n in &(if q { vec![15usize, 16, 17, 33, 49, 64] } else { vec![15usize, 16, 17, 31, 32, 33, 34, 47, 48, 49, 63, 64, 65, 128, 129] }) {
        for period in [2usize, 3] {
            let k = n + 2 * period + 2;
            u.push(unit!(format!("C12/Negate-swap/Min,Max({n})/k={k}/period-{period}"), minmax_swap_cyc(n, k, period)));
            for vk in [VK::Min(n), VK::Max(n)] { u.push(unit!(format!("C12/Scale-Scaled/{}/k={k}/period-{period}", vk.name()), relate_cyc(vk.clone(), k, Tr::Scale, Rel::Scaled, 0usize, period))); }
            if n <= 49 {
                u.push(unit!(format!("C12/Negate-Negated/NET({n})/k={k}/period-{period}"), relate_cyc(VK::NET(n), k, Tr::Negate, Rel::Negated, n - 1, period)));
                u.push(unit!(format!("C12/Negate-Negated/HLNormalizer({n})/k={k}/period-{period}"), relate_cyc(VK::HLNormalizer(n), k, Tr::Negate, Rel::Negated, n - 1, period)));
                u.push(unit!(format!("C12/Negate-HundredMinus/Rsi({n})/k={k}/period-{period}"), relate_cyc(VK::Rsi(n), k, Tr::Negate, Rel::HundredMinus, n, period)));
            }
        }
    }
    for x in u.iter_mut().skip(first_cyc) { x.budget_s = 30.0; x.path_cap = 200; x.max_decisions = 60000; }
    u
}
pub fn meta() -> Meta {
    Meta {
        functions: vec!["HLNormalizer", "Vsct", "Vst", "CorrelationTrendIndicator", "NoiseEliminationTechnology", "EhlersFisherTransform", "Rsi", "MyRSI", "LaguerreRSI", "Roc", "CenterOfGravity", "BinaryEntropy", "TrendFlex", "ReFlex", "LnReturn", "Drawdown", "Min", "Max", "Sma", "Ema", "Alma", "Cumulative", "WelfordOnline", "SuperSmoother", "RoofingFilter", "CyberCycle", "LaguerreFilter — each ::{new,update,last}, two instances driven on x and on the transformed stream"],
        bounds: "N = 2 (quick) / {2,3,4} (thorough), raised to the view's minimum; Min/Max (negation swap, scaling), NET, HLNormalizer and Rsi (negation) also on streams cycling through two or three symbolic values, all comparison outcomes, at N in {15,16,17,33,49,64} (quick) / {15..17,31..34,47..49,63..65,128,129} (NET/HLNormalizer/Rsi up to 49); k = N+3; the scale a>0 and the offset b are solver variables (verdict for all scales and offsets); all comparison outcomes of both instances; in addition N = 8 (quick) / {6,8,12,16} along a sampled comparison path",
        outside: vec!["the f64 clause 'bit-exact for a a power of two' (needs bit-precise floating point; see kani/ for Min/Max)", "N > 4, longer streams"],
        assumptions: vec!["sqrt is the exact real square root (axiomatised), ln/tanh uninterpreted with congruence and monotonicity"],
    }
}
