//! C14 — combinators are pointwise, stateless functions of their children's current outputs.
use crate::dom::*;
use crate::props::{Meta, Tier};
use crate::run::Unit;
use crate::sym::Cond;
use crate::unit;
use crate::views::*;
use sliding_features::{pure_functions::*, View};

/// children are scripted views that emit a fresh variable at every step, independent of the input
fn binary<T: Dom>(op: usize, k: usize) {
    let a: Vec<Option<T>> = (0..k).map(|t| Some(T::input(&format!("a{t}")))).collect();
    let b: Vec<Option<T>> = (0..k).map(|t| Some(T::input(&format!("b{t}")))).collect();
    let mut v = binop::<T>(op, DynV::new(Script::new(a.clone())), DynV::new(Script::new(b.clone())));
    for t in 0..k {
        let (p, q) = (a[t].unwrap(), b[t].unwrap());
        if op == 3 { T::assume(Cond::Ne(q, T::zero())); }
        v.update(T::input(&format!("x{t}")));
        let want = match op { 0 => p + q, 1 => p - q, 2 => p * q, _ => p / q };
        match v.last() {
            Some(o) => T::oblige(&format!("{} t={t}: out is exactly a_t {} b_t of the children's current outputs", BINOPS[op], ["+", "-", "*", "/"][op]), Cond::Ident(o, want)),
            None => T::oblige(&format!("{} t={t}: has a value when both children do", BINOPS[op]), Cond::Bool(false)),
        }
    }
}
/// a child that is not ready on some steps: the combinator reports iff both children do
fn binary_ready<T: Dom>(op: usize) {
    let pat_a = [false, true, true, false, true, true];
    let pat_b = [true, false, true, true, false, true];
    let a: Vec<Option<T>> = pat_a.iter().enumerate().map(|(t, r)| if *r { Some(T::input(&format!("a{t}"))) } else { None }).collect();
    let b: Vec<Option<T>> = pat_b.iter().enumerate().map(|(t, r)| if *r { Some(T::input(&format!("b{t}"))) } else { None }).collect();
    let mut v = binop::<T>(op, DynV::new(Script::new(a.clone())), DynV::new(Script::new(b.clone())));
    for t in 0..pat_a.len() {
        if let Some(q) = b[t] { if op == 3 { T::assume(Cond::Ne(q, T::zero())); } }
        v.update(T::input(&format!("x{t}")));
        T::oblige(&format!("{} t={t}: reports a value iff both children do", BINOPS[op]), Cond::Bool(v.last().is_some() == (a[t].is_some() && b[t].is_some())));
    }
}
/// children whose outputs repeat (period 2 against period 3, over two variables each) and drop out on some steps, over a long run:
/// a combinator that caches on "operand unchanged", keeps a stale operand across a not-ready step, or resynchronises
/// every 2^m updates gives a different term somewhere in the run
fn binary_repeating<T: Dom>(op: usize, k: usize) {
    let av = [T::input("a0"), T::input("a1")];
    let bv = [T::input("b0"), T::input("b1"), T::input("b2")];
    if op == 3 { for q in bv { T::assume(Cond::Ne(q, T::zero())); } }
    let a: Vec<Option<T>> = (0..k).map(|t| if t % 7 == 5 { None } else { Some(av[(t / 2) % 2]) }).collect();
    let b: Vec<Option<T>> = (0..k).map(|t| if t % 11 == 3 { None } else { Some(bv[(t / 3) % 3]) }).collect();
    let mut v = binop::<T>(op, DynV::new(Script::new(a.clone())), DynV::new(Script::new(b.clone())));
    for t in 0..k {
        v.update(T::input(&format!("x{}", t % 4)));
        let want = match (a[t], b[t]) { (Some(p), Some(q)) => Some(match op { 0 => p + q, 1 => p - q, 2 => p * q, _ => p / q }), _ => None };
        T::oblige(&format!("{} t={t}: out is a_t {} b_t of the children's current outputs, None iff one of them is (first call)", BINOPS[op], ["+", "-", "*", "/"][op]), opt_ident(v.last(), want));
        T::oblige(&format!("{} t={t}: the same on a second call of last()", BINOPS[op]), opt_ident(v.last(), want));
    }
}
/// clip over a long run whose child repeats values, equals the clip point on some steps and is not ready on others
fn clip_repeating<T: Dom>(k: usize, gte: bool) {
    let c = T::input("clip");
    let sv = [T::input("v0"), T::input("v1"), c];
    let s: Vec<Option<T>> = (0..k).map(|t| if t % 13 == 6 { None } else { Some(sv[(t / 2) % 3]) }).collect();
    let mut v: DynV<T> = if gte { DynV::new(GTE::new(Script::new(s.clone()), c)) } else { DynV::new(LTE::new(Script::new(s.clone()), c)) };
    let nm = if gte { "GTE" } else { "LTE" };
    for t in 0..k {
        v.update(T::input(&format!("x{}", t % 4)));
        let Some(child) = s[t] else { continue };   // what a clip reports while its child is not ready is not stated by C14
        let Some(o) = v.last() else { T::oblige(&format!("{nm} t={t}: has a value"), Cond::Bool(false)); continue };
        let want = if gte { Cond::Or(vec![Cond::And(vec![le(c, child), Cond::Ident(o, child)]), Cond::And(vec![lt(child, c), Cond::Ident(o, c)])]) }
                   else { Cond::Or(vec![Cond::And(vec![le(child, c), Cond::Ident(o, child)]), Cond::And(vec![lt(c, child), Cond::Ident(o, c)])]) };
        T::oblige(&format!("{nm} t={t}: out == {}(child_t, clip) on a repeating child", if gte { "max" } else { "min" }), want);
    }
}
fn clip<T: Dom>(k: usize, gte: bool) {
    let c = T::input("clip");
    let s: Vec<Option<T>> = (0..k).map(|t| Some(T::input(&format!("v{t}")))).collect();
    let mut v: DynV<T> = if gte { DynV::new(GTE::new(Script::new(s.clone()), c)) } else { DynV::new(LTE::new(Script::new(s.clone()), c)) };
    for t in 0..k {
        v.update(T::input(&format!("x{t}")));
        let child = s[t].unwrap();
        let Some(o) = v.last() else { T::oblige(&format!("{} t={t}: has a value", if gte { "GTE" } else { "LTE" }), Cond::Bool(false)); continue };
        let want = if gte { Cond::Or(vec![Cond::And(vec![le(c, child), Cond::Ident(o, child)]), Cond::And(vec![lt(child, c), Cond::Ident(o, c)])]) }
                   else { Cond::Or(vec![Cond::And(vec![le(child, c), Cond::Ident(o, child)]), Cond::And(vec![lt(c, child), Cond::Ident(o, c)])]) };
        T::oblige(&format!("{} t={t}: out == {}(child_t, clip), bit-exactly one of the two", if gte { "GTE" } else { "LTE" }, if gte { "max" } else { "min" }), want);
    }
}
fn tanh<T: Dom>(k: usize) {
    let s: Vec<Option<T>> = (0..k).map(|t| Some(T::input(&format!("v{t}")))).collect();
    let mut v = Tanh::new(Script::new(s.clone()));
    for t in 0..k {
        v.update(T::input(&format!("x{t}")));
        match v.last() { Some(o) => T::oblige(&format!("Tanh t={t}: out == tanh(child_t)"), Cond::Ident(o, s[t].unwrap().tanh())), None => T::oblige(&format!("Tanh t={t}: has a value"), Cond::Bool(false)) }
    }
}
/// Tanh on concrete child outputs spanning many magnitudes: the reported value must be exactly libm's tanh of it
/// (complements the symbolic obligation above, where tanh is uninterpreted)
fn tanh_magnitudes<T: Dom>() {
    // magnitudes from 1e-300 to 1e2: a mantissa grid per decade, the integers and halves up to 45 (where tanh saturates), and a few hand-picked values
    let mut vals: Vec<f64> = vec![0.0, 1e-300, 1e-100, 1e-30, 3.3000000000000005e-10, 1.489934220444411e-8, 7.9712, 9.0109, 18.0218, 19.0615];
    for e in -16..=2 { for m in [1.0, 1.3, 1.4, 1.49, 1.5, 2.0, 2.5, 3.3, 4.0, 5.0, 6.0, 7.0, 7.97, 8.0, 9.0] { vals.push(m * 10f64.powi(e)); } }
    for i in 1..=90 { vals.push(i as f64 * 0.5); vals.push(i as f64 * 0.5 + 0.25); }
    let mut all: Vec<f64> = vals.clone(); all.extend(vals.iter().map(|v| -v));
    let s: Vec<Option<T>> = all.iter().map(|v| Some(T::c(*v))).collect();
    let mut v = Tanh::new(Script::new(s.clone()));
    for (t, x) in all.iter().enumerate() {
        v.update(T::zero());
        match v.last() { Some(o) => T::oblige(&format!("Tanh of the concrete child output {x:e}: out == tanh({x:e}) bit-exactly"), Cond::Ident(o, T::c(x.tanh()))), None => T::oblige(&format!("Tanh step {t}: has a value"), Cond::Bool(false)) }
    }
}
fn echo_const<T: Dom>(k: usize) {
    let c = T::input("c");
    let mut e = Echo::<T>::new();
    let mut k_ = Constant::new(c);
    T::oblige("Constant before any update: reports its constant", opt_ident(k_.last(), Some(c)));
    for t in 0..k {
        let x = T::input(&format!("x{t}"));
        e.update(x); k_.update(x);
        T::oblige(&format!("Echo t={t}: out is the latest input"), opt_ident(e.last(), Some(x)));
        T::oblige(&format!("Constant t={t}: out is its constant"), opt_ident(k_.last(), Some(c)));
    }
}
pub fn units(tier: Tier, _seed: u64) -> Vec<Unit> {
    let k = if tier == Tier::Quick { 4usize } else { 8usize };
    let mut u = vec![];
    for op in 0..4usize { u.push(unit!(format!("C14/{}/k={k}", BINOPS[op]), binary(op, k))); u.push(unit!(format!("C14/{}-readiness", BINOPS[op]), binary_ready(op))); }
    let kl = if tier == Tier::Quick { 300usize } else { 4200usize };
    for op in 0..4usize { u.push(unit!(format!("C14/{}/repeating-children/k={kl}", BINOPS[op]), binary_repeating(op, kl))); }
    u.push(unit!(format!("C14/GTE/repeating-child/k={kl}"), clip_repeating(kl, true)));
    u.push(unit!(format!("C14/LTE/repeating-child/k={kl}"), clip_repeating(kl, false)));
    u.push(unit!(format!("C14/GTE/k={k}"), clip(k, true)));
    u.push(unit!(format!("C14/LTE/k={k}"), clip(k, false)));
    u.push(unit!(format!("C14/Tanh/k={k}"), tanh(k)));
    u.push(unit!("C14/Tanh/concrete-magnitudes", tanh_magnitudes()));
    u.push(unit!(format!("C14/Echo,Constant/k={k}"), echo_const(k)));
    u
}
pub fn meta() -> Meta {
    Meta {
        functions: vec!["Add", "Subtract", "Multiply", "Divide", "GTE", "LTE", "Tanh", "Echo", "Constant — each ::{new,update,last}"],
        bounds: "k = 4 (quick) / 8 (thorough) steps; children are scripted views emitting a fresh solver variable at every step (so any dependence on an earlier child value, a swapped or cached operand gives a different term); clip point and constant are solver variables; divisor assumed non-zero; plus runs of 300 (quick) / 4200 (thorough) steps over children whose outputs repeat with periods 4 and 9 over 2 and 3 solver variables, drop out every 7th / 11th step, and (clips) equal the clip point on a third of the steps, last() called twice per step",
        outside: vec!["children other than scripted leaves (composition with real views is C01)"],
        assumptions: vec!["term identity: two outputs with the same term are bit-identical under every deterministic interpretation of + - * / tanh (reals, f32, f64); engine K repeats the arithmetic combinators on f64 bits (kani/)"],
    }
}
