//! C13 — rolling statistics equal their batch definition over the whole history.
use crate::dom::*;
use crate::props::{Meta, Tier};
use crate::run::Unit;
use crate::sym::Cond;
use crate::unit;
use sliding_features::{pure_functions::Echo, rolling::*, View};

fn welford_rolling<T: Dom>(k: usize, use_default: bool) {
    let mut v: WelfordRolling<T, Echo<T>> = if use_default { WelfordRolling::default() } else { WelfordRolling::new(Echo::new()) };
    let mut h: Vec<T> = vec![];
    for t in 0..k {
        let x = T::input(&format!("x{t}"));
        h.push(x);
        v.update(x);
        let n = T::u(h.len());
        let s = sum(&h);
        T::oblige(&format!("WelfordRolling t={t}: mean()*n == sum of all values"), eq(v.mean() * n, s));
        let ssn2 = h.iter().fold(T::zero(), |a, x| a + (n * *x - s) * (n * *x - s)); // n^2 * sum (x-mean)^2
        match v.last() {
            Some(o) => T::oblige(&format!("WelfordRolling t={t}: last() == population standard deviation of all values"), Cond::And(vec![le(T::zero(), o), eq(o * o * n * n * n, ssn2)])),
            None => T::oblige(&format!("WelfordRolling t={t}: has a value"), Cond::Bool(false)),
        }
    }
}
fn drawdown<T: Dom>(k: usize, use_default: bool) {
    let mut v: Drawdown<T, Echo<T>> = if use_default { Drawdown::default() } else { Drawdown::new(Echo::new()) };
    let mut peak: Option<T> = None;
    let mut dds: Vec<T> = vec![T::zero()];
    for t in 0..k {
        let x = T::input(&format!("posx{t}"));
        T::assume(lt(T::zero(), x));
        v.update(x);
        let p = match peak { Some(p) if !(x > p) => p, _ => x };
        peak = Some(p);
        dds.push((p - x) / p);
        match v.last() {
            Some(o) => T::oblige(&format!("Drawdown t={t}: out == max over j<=t of (peak_j - x_j)/peak_j (0 before any decline)"), is_max(o, &dds)),
            None => T::oblige(&format!("Drawdown t={t}: has a value"), Cond::Bool(false)),
        }
    }
}
fn ln_return<T: Dom>(k: usize, use_default: bool) {
    let mut v: LnReturn<T, Echo<T>> = if use_default { LnReturn::default() } else { LnReturn::new(Echo::new()) };
    let mut prev: Option<T> = None;
    for t in 0..k {
        let x = T::input(&format!("posx{t}"));
        T::assume(lt(T::zero(), x));
        v.update(x);
        match (v.last(), prev) {
            (Some(o), Some(p)) => T::oblige(&format!("LnReturn t={t}: out == ln(x_t / x_(t-1))"), Cond::Ident(o, (x / p).ln())),
            (None, None) => {}
            (Some(_), None) => T::oblige(&format!("LnReturn t={t}: nothing before the second value"), Cond::Bool(false)),
            (None, Some(_)) => T::oblige(&format!("LnReturn t={t}: a value from the second value on"), Cond::Bool(false)),
        }
        prev = Some(x);
    }
}
pub fn units(tier: Tier, _seed: u64) -> Vec<Unit> {
    let q = tier == Tier::Quick;
    let mut u = vec![];
    for d in [false, true] {
        let tag = if d { "default()" } else { "new(Echo)" };
        u.push(unit!(format!("C13/WelfordRolling/{tag}/k={}", if q { 8 } else { 16 }), welford_rolling(if q { 8usize } else { 16usize }, d)));
        u.push(unit!(format!("C13/Drawdown/{tag}/k={}", if q { 5 } else { 7 }), drawdown(if q { 5usize } else { 7usize }, d)));
        u.push(unit!(format!("C13/LnReturn/{tag}/k={}", if q { 6 } else { 12 }), ln_return(if q { 6usize } else { 12usize }, d)));
    }
    // a long stream along a sampled comparison path ("any number of updates" is bounded by k here)
    let mut a = unit!("C13/WelfordRolling/new(Echo)/k=40/sample-path", welford_rolling(40usize, false)); a.concolic = Some(1); u.push(a);
    let mut b = unit!("C13/Drawdown/new(Echo)/k=60/sample-path", drawdown(60usize, false)); b.concolic = Some(2); u.push(b);
    let mut c = unit!("C13/Drawdown/new(Echo)/k=60/sample-path#2", drawdown(60usize, false)); c.concolic = Some(3); u.push(c);
    for x in u.iter_mut() { x.max_decisions = 60000; }
    u
}
pub fn meta() -> Meta {
    Meta {
        functions: vec!["WelfordRolling::{new,update,last,mean,variance}", "Drawdown::{new,update,last}", "LnReturn::{new,update,last}", "Echo::{update,last}"],
        bounds: "both constructors (new(Echo) and Default::default()); sampled comparison paths of 40-60 values; stream length k = 8 / 5 / 6 (quick) and 16 / 7 / 12 (thorough) for WelfordRolling / Drawdown / LnReturn; inputs are solver variables, positive for Drawdown and LnReturn; all comparison outcomes (new peaks, repeated peaks, declines are branches)",
        outside: vec!["'millions of values': the claim is the stated k", "growth of f64 rounding error with the stream length (that is C16)"],
        assumptions: vec!["LnReturn: `ln` is uninterpreted; the obligation is that the view returns the identical term ln(x_t/x_(t-1))"],
    }
}
