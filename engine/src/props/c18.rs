//! C18 — bounded memory: after the window has filled, the heap owned by a view does not grow with the stream.
//! The bytes owned by the view are measured with a counting allocator (engine allocations masked); the solver's
//! role is to make the verdict hold for every input within the bound (buffer lengths may depend on comparisons).
use crate::alloc;
use crate::dom::*;
use crate::props::{Meta, Tier};
use crate::run::Unit;
use crate::sym::Cond;
use crate::unit;
use crate::views::*;
use sliding_features::View;

#[derive(Clone, Copy, Debug, PartialEq)]
pub enum Tail { Constant, Alternating, Increasing, Decreasing, /// every value twice, strictly decreasing from pair to pair (equal neighbours at every other step; the parity shifts the pairs)
    StairsDown(usize), /// alternating sign, magnitude growing by a fixed step: the value leaving the window is never its extreme
    GrowingOsc }
fn bounded_memory<T: Dom>(outer: VK, inner: Option<VK>, free: usize, tail: Tail, fill: usize, total: usize) {
    let positive = outer.needs_positive() || inner.as_ref().map_or(false, |i| i.needs_positive());
    let name = match &inner { Some(i) => format!("{} over {}", outer.name(), i.name()), None => outer.name() };
    alloc::reset();
    let built = std::panic::catch_unwind(std::panic::AssertUnwindSafe(|| alloc::track(|| { let base = match &inner { Some(i) => build::<T>(i, echo()), None => echo() }; build::<T>(&outer, base) })));
    let Ok(mut v) = built else { T::oblige(&format!("{name}: the constructor rejects this window length (nothing to run)"), Cond::Bool(true)); return };
    let p = if positive { "pos" } else { "" };
    let pos = |x: T| { if positive { T::assume(lt(T::zero(), x)); } x };
    let (a, b) = (pos(T::input(&format!("{p}a"))), pos(T::input(&format!("{p}b"))));
    let step = { let d = T::input("posstep"); T::assume(lt(T::zero(), d)); d };
    let mut peak_during_fill = 0i64;
    let mut prev = a;
    for t in 0..total {
        let x = if t < free { pos(T::input(&format!("{p}x{t}"))) } else { match tail { Tail::Constant => a, Tail::Alternating => if t % 2 == 0 { a } else { b }, Tail::Increasing => { let d = T::input(&format!("posd{t}")); T::assume(lt(T::zero(), d)); prev + d } Tail::Decreasing => { let d = T::input(&format!("posd{t}")); T::assume(lt(T::zero(), d)); if positive { prev / (T::one() + d) } else { prev - d } }
            Tail::StairsDown(par) => a - step * T::u((t + par) / 2),
            Tail::GrowingOsc => { let m = b * b + T::one() + step * T::u(t); if t % 2 == 0 { m } else { -m } } } };
        prev = x;
        alloc::track(|| { v.update(x); let _ = v.last(); });
        let live = alloc::live();
        if t < fill { peak_during_fill = peak_during_fill.max(live); }
        else if live > peak_during_fill {
            T::oblige(&format!("{name}: heap owned by the view after {} values ({live} B) does not exceed its peak while the window filled ({peak_during_fill} B, first {fill} values)", t + 1), Cond::Bool(false));
            break;
        }
    }
    T::oblige(&format!("{name}: memory stayed bounded over {total} values"), Cond::Bool(true));
    alloc::track(|| drop(v));
}
pub fn units(tier: Tier, seed: u64) -> Vec<Unit> {
    let q = tier == Tier::Quick;
    let mut rng = Rng::new(seed ^ 0xC18);
    let mut u: Vec<Unit> = vec![];
    let mut seen = std::collections::HashSet::new();
    let ns: Vec<usize> = if q { vec![1, 2, 3, 8] } else { vec![1, 2, 3, 4, 8, 16, 32] };
    for &n in &ns {
        for vk in crate::props::c15::raw_wrappers(n) {
            if vk.is_leaf() || !seen.insert(vk.name()) { continue; }
            let wl = match &vk { VK::Roofing(a, b) => a + b + 1, VK::CyberCycle(a) => (*a).max(6), _ => n };
            let fill = 2 * wl + 4;
            let heavy = matches!(vk, VK::NET(_) | VK::EFT(..) | VK::HLNormalizer(_) | VK::LaguerreRSI(_) | VK::Min(_) | VK::Max(_) | VK::Rsi(_) | VK::MyRSI(_));
            let free = if n > 3 { 1 } else if heavy { 2 } else { 3 };
            let tails: Vec<Tail> = if n > 8 { vec![Tail::Alternating] } else { vec![Tail::Constant, Tail::Alternating] };
            // views whose comparisons are nonlinear in the inputs: follow the comparison path of a pseudo-random sample (concolic)
            let nonlinear = matches!(vk, VK::TrendFlex(_) | VK::ReFlex(_) | VK::CTI(_) | VK::PFE(..) | VK::WelfordOnline(_) | VK::Vst(_) | VK::Vsct(_) | VK::WelfordRolling | VK::EFT(..) | VK::Drawdown | VK::LnReturn | VK::Rsi(_) | VK::MyRSI(_) | VK::CoG(_) | VK::Roc(_));
            for tail in tails {
                if !nonlinear || n <= 2 { u.push(unit!(format!("C18/{}/free={free}/tail={tail:?}/total={}", vk.name(), 4 * fill), bounded_memory(vk.clone(), None, free, tail, fill, 4 * fill))); }
                if nonlinear { let mut c = unit!(format!("C18/{}/free={free}/tail={tail:?}/total={}/sample-path", vk.name(), 4 * fill), bounded_memory(vk.clone(), None, free, tail, fill, 4 * fill)); c.concolic = Some(seed + 3); u.push(c); }
            }
            // strictly monotone tails (every eviction removes an extremum; no value ever repeats), along a sampled path
            if n <= 8 { for tail in [Tail::Increasing, Tail::Decreasing] {
                let mut c = unit!(format!("C18/{}/free=1/tail={tail:?}/total={}/sample-path", vk.name(), 4 * fill), bounded_memory(vk.clone(), None, 1usize, tail, fill, 4 * fill)); c.concolic = Some(seed + 21); u.push(c);
            } }
        }
    }
    // staircases (equal neighbours at every other step, ever new lows) at window lengths beyond 16, and a growing oscillation (the value
    // leaving the window is never its extreme) over 800 updates at N = 3: both along a sampled comparison path
    let first_shape = u.len();
    for &n in &(if q { vec![3usize, 17, 20] } else { vec![3usize, 5, 17, 20, 33] }) {
        for vk in crate::props::c15::raw_wrappers(n) {
            if vk.is_leaf() || vk.needs_positive() || matches!(vk, VK::TrendFlex(_) | VK::ReFlex(_) | VK::LaguerreRSI(_) | VK::NET(_)) { continue; }
            let wl = match &vk { VK::Roofing(a, b) => a + b + 1, VK::CyberCycle(a) => (*a).max(6), _ => n };
            let fill = 2 * wl + 4;
            for par in [0usize, 1] { u.push(unit!(format!("C18/{}/free=0/tail=StairsDown({par})/total={}/sample-path", vk.name(), 4 * fill), bounded_memory(vk.clone(), None, 0usize, Tail::StairsDown(par), fill, 4 * fill))); }
            if n == 3 { u.push(unit!(format!("C18/{}/free=0/tail=GrowingOsc/total=800/sample-path", vk.name()), bounded_memory(vk.clone(), None, 0usize, Tail::GrowingOsc, fill, 800usize))); }
        }
    }
    let n_shape = u.len() - first_shape;
    // seeded two-level chains
    let pool: Vec<VK> = crate::props::c15::raw_wrappers(2).into_iter().filter(|v| !v.is_leaf() && !matches!(v, VK::NET(_) | VK::EFT(..) | VK::HLNormalizer(_) | VK::PFE(..))).collect();
    let inner_pool: Vec<VK> = pool.iter().filter(|v| matches!(v, VK::Gte(_) | VK::Sma(_) | VK::Ema(_) | VK::Alma(_) | VK::Cumulative(_) | VK::SuperSmoother(_) | VK::LaguerreFilter(_) | VK::CyberCycle(_) | VK::Roofing(..) | VK::Min(_) | VK::Roc(_))).cloned().collect();
    let mut seen = std::collections::HashSet::new();
    for _ in 0..(if q { 16 } else { 80 }) {
        let (o, i) = (pool[rng.below(pool.len())].clone(), inner_pool[rng.below(inner_pool.len())].clone());
        if o.needs_positive() || !seen.insert((o.name(), i.name())) { continue; }
        u.push(unit!(format!("C18/{} over {}/free=1/tail=Alternating/total=64", o.name(), i.name()), bounded_memory(o.clone(), Some(i.clone()), 1usize, Tail::Alternating, 16usize, 64usize)));
    }
    for x in u.iter_mut() { x.path_cap = if q { 400 } else { 4000 }; x.budget_s = if q { 6.0 } else { 60.0 }; x.branch_nl_timeout_ms = Some(300); x.max_decisions = 60000; }
    for x in u.iter_mut().skip(first_shape).take(n_shape) { x.concolic = Some(seed + 51); x.budget_s = 20.0; x.max_decisions = 400000; }
    u
}
pub fn meta() -> Meta {
    Meta {
        functions: vec!["every view of the crate ::{new,update,last,drop} at window lengths N (catalogue of C15), seeded two-level chains"],
        bounds: "N in {1,2,3,8} (quick) / {1,2,3,4,8,16,32} (thorough); the stream runs to 4L values, L = 2N+4 (the window has filled well before L); its first 1..3 values are free solver variables, the rest is a constant or alternating tail of two further symbolic values (and strictly increasing / decreasing tails along a sampled path), so ties, zeros and flat stretches are comparison branches (views whose comparisons are nonlinear in the inputs are, above N=2, followed along the path of one pseudo-random sample instead); obligation on every explored path: live bytes at every step in (L,4L] do not exceed the peak over the first L steps (a push-only buffer must reallocate in that range because 4L exceeds twice any capacity reached by L); 16 / 80 seeded two-level chains; path cap 400 / 4000 per unit (reported when hit)",
        outside: vec!["'millions of values': the claim is 4L", "growth slower than one reallocation per 4L values", "fully free streams beyond the first three values"],
        assumptions: vec!["the counting allocator sees allocations made inside update()/last()/new() of the view under test; allocations inside the engine (term arena, solver I/O) are masked by a thread-local flag set around every Sym operation", "the measurement itself is concrete; the solver decides which comparison paths (and hence buffer histories) are feasible"],
    }
}
