use crate::run::Unit;
#[derive(Clone, Copy, PartialEq, Eq, Debug)]
pub enum Tier { Quick, Thorough }
pub struct Meta {
    pub functions: Vec<&'static str>,
    pub bounds: &'static str,
    pub outside: Vec<&'static str>,
    pub assumptions: Vec<&'static str>,
}
pub mod c02;
pub mod c04;
pub mod c05;
pub mod c06;

pub fn units(prop: &str, tier: Tier, seed: u64) -> Option<(Vec<Unit>, Meta)> {
    Some(match prop {
        "C02" => (c02::units(tier, seed), c02::meta()),
        "C04" => (c04::units(tier, seed), c04::meta()),
        "C05" => (c05::units(tier, seed), c05::meta()),
        "C06" => (c06::units(tier, seed), c06::meta()),
        _ => return None,
    })
}
pub const ALL: &[&str] = &["C02"];
