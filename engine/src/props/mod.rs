use crate::run::Unit;
#[derive(Clone, Copy, PartialEq, Eq, Debug)]
pub enum Tier { Quick, Thorough }
pub struct Meta {
    pub functions: Vec<&'static str>,
    pub bounds: &'static str,
    pub outside: Vec<&'static str>,
    pub assumptions: Vec<&'static str>,
}
pub mod c02;

pub fn units(prop: &str, tier: Tier, seed: u64) -> Option<(Vec<Unit>, Meta)> {
    Some(match prop {
        "C02" => (c02::units(tier, seed), c02::meta()),
        _ => return None,
    })
}
pub const ALL: &[&str] = &["C02"];
