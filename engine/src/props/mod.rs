use crate::run::Unit;
#[derive(Clone, Copy, PartialEq, Eq, Debug)]
pub enum Tier { Quick, Thorough }
pub struct Meta {
    pub functions: Vec<&'static str>,
    pub bounds: &'static str,
    pub outside: Vec<&'static str>,
    pub assumptions: Vec<&'static str>,
}
pub mod c01;
pub mod c01_static;
pub mod c02;
pub mod c03;
pub mod c04;
pub mod c05;
pub mod c06;
pub mod c07;
pub mod c08;
pub mod c09;
pub mod c10;
pub mod c11;
pub mod c12;
pub mod c15;
pub mod c17;
pub mod c18;
pub mod c13;
pub mod c14;

/// Views that perform no comparison of their own on data: a unit that involves only these has a single path on the unchanged tree, so
/// following a sampled comparison path buys nothing there — while exploring all outcomes makes every value-dependent guard that a
/// change introduces (a cancellation test, a magnitude threshold) a branch taken on both sides, at any window length.
fn comparison_free(id: &str) -> bool {
    const FREE: &[&str] = &["Sma", "Ema", "Alma", "AlmaCustom", "Cumulative", "LaguerreFilter", "SuperSmoother", "CyberCycle", "Roofing", "Echo"];
    // every capitalised identifier in the unit id that names a view must be one of the above
    let mut any = false;
    let mut tok = String::new();
    for ch in id.chars().chain(std::iter::once(' ')) {
        if ch.is_ascii_alphanumeric() { tok.push(ch); continue; }
        let prop_tag = tok.len() == 3 && tok.starts_with('C') && tok[1..].chars().all(|c| c.is_ascii_digit());
        if tok.chars().next().map_or(false, |c| c.is_ascii_uppercase()) && tok.len() > 2 && !prop_tag {
            if FREE.contains(&tok.as_str()) { any = true; } else if !["Affine", "Same", "Scale", "Negate", "Shift", "Free", "Decreasing", "Increasing", "Alternating", "AltThenFlat", "Constant", "Cycle3", "Free3ThenFlat", "FlatThenFree3"].contains(&tok.as_str()) { return false; }
        }
        tok.clear();
    }
    any
}
pub fn units(prop: &str, tier: Tier, seed: u64) -> Option<(Vec<Unit>, Meta)> {
    let (mut us, meta) = units_raw(prop, tier, seed)?;
    for u in us.iter_mut() { if u.concolic.is_some() && comparison_free(&u.id) { u.concolic = None; u.path_cap = u.path_cap.min(400); } }
    Some((us, meta))
}
fn units_raw(prop: &str, tier: Tier, seed: u64) -> Option<(Vec<Unit>, Meta)> {
    Some(match prop {
        "C01" => (c01::units(tier, seed), c01::meta()),
        "C02" => (c02::units(tier, seed), c02::meta()),
        "C03" => (c03::units(tier, seed), c03::meta()),
        "C04" => (c04::units(tier, seed), c04::meta()),
        "C05" => (c05::units(tier, seed), c05::meta()),
        "C06" => (c06::units(tier, seed), c06::meta()),
        "C07" => (c07::units(tier, seed), c07::meta()),
        "C08" => (c08::units(tier, seed), c08::meta()),
        "C09" => (c09::units(tier, seed), c09::meta()),
        "C10" => (c10::units(tier, seed), c10::meta()),
        "C11" => (c11::units(tier, seed), c11::meta()),
        "C12" => (c12::units(tier, seed), c12::meta()),
        "C13" => (c13::units(tier, seed), c13::meta()),
        "C15" => (c15::units(tier, seed), c15::meta()),
        "C17" => (c17::units(tier, seed), c17::meta()),
        "C18" => (c18::units(tier, seed), c18::meta()),
        "C14" => (c14::units(tier, seed), c14::meta()),
        _ => return None,
    })
}
pub const ALL: &[&str] = &["C02"];
