//! C09 — recursive filters are stable and have fading memory for every window length.
//! Two runs with different (symbolic, bounded) prefixes and a common symbolic tail: the outputs stay
//! bounded by one fixed constant and their difference has decayed below 2^-6 after m = 8*tau steps.
use crate::dom::*;
use crate::props::{Meta, Tier};
use crate::run::Unit;
use crate::sym::Cond;
use crate::unit;
use crate::views::*;
use sliding_features::View;

fn bounded_input<T: Dom>(name: &str) -> T { T::input_unit(name) }
fn chain<T: Dom>(vks: &[VK]) -> DynV<T> { let mut v = echo::<T>(); for k in vks.iter().rev() { v = build::<T>(k, v); } v }
fn name_of(vks: &[VK]) -> String { vks.iter().map(|v| v.name()).collect::<Vec<_>>().join(" over ") }

/// linear recursive views and chains of them
fn linear_fading<T: Dom>(vks: Vec<VK>, s: usize, m: usize, warm: usize) {
    let (mut a, mut b) = (chain::<T>(&vks), chain::<T>(&vks));
    let name = name_of(&vks);
    let mut t = 0usize;
    let mut check_gain = |o: Option<T>, t: usize| { if let Some(o) = o { if t < 16 || t % 8 == 0 { T::oblige_abs_le_boxed(&format!("{name} t={t}: |out| <= 64 for inputs bounded by 1 (bounded gain, independent of the stream length)"), o, 64.0); } } };
    for i in 0..s { let (x, y) = (bounded_input::<T>(&format!("px{i}")), bounded_input::<T>(&format!("py{i}"))); a.update(x); b.update(y); check_gain(a.last(), t); t += 1; }
    for j in 0..m { let z = bounded_input::<T>(&format!("z{j}")); a.update(z); b.update(z); check_gain(a.last(), t); t += 1; }
    match (a.last(), b.last()) {
        (Some(p), Some(q)) => T::oblige_abs_le_boxed(&format!("{name}: two streams differing only in their first {s} values are within 2^-6 of each other after {m} common values (fading memory)"), p - q, 1.0 / 64.0),
        _ => if s + m >= warm { T::oblige(&format!("{name}: has a value after {} inputs", s + m), Cond::Bool(false)) },
    }
}
/// Ema: the difference of two streams contracts by exactly rho = (N-1)/(N+1) per common value, so after m common values it is at most
/// 2 rho^m — stated with m large enough that the bound is below 1e-10 (a contraction that stalls at a small distance, or slows down
/// near the fixed point, is not geometric convergence)
fn ema_geometric<T: Dom>(n: usize, s: usize, m: usize) {
    let (mut a, mut b) = (chain::<T>(&[VK::Ema(n)]), chain::<T>(&[VK::Ema(n)]));
    for i in 0..s { let (x, y) = (bounded_input::<T>(&format!("px{i}")), bounded_input::<T>(&format!("py{i}"))); a.update(x); b.update(y); }
    let rho = (n as f64 - 1.0) / (n as f64 + 1.0);
    for j in 0..m {
        let z = bounded_input::<T>(&format!("z{j}")); a.update(z); b.update(z);
        if j + 1 == m / 2 || j + 1 == m {
            let bound = (2.0 * rho.powi(j as i32 + 1) * 1.001).max(1e-300);
            match (a.last(), b.last()) {
                (Some(p), Some(q)) => T::oblige_abs_le_boxed(&format!("Ema({n}): two streams differing only in their first {s} values are within 2*rho^{} = {bound:.3e} of each other after {} common values (geometric convergence, rho = (N-1)/(N+1))", j + 1, j + 1), p - q, bound),
                _ => if s + j + 1 >= n { T::oblige(&format!("Ema({n}): has a value after {} inputs", s + j + 1), Cond::Bool(false)) },
            }
        }
    }
}
/// SuperSmoother (double pole of radius a1 = exp(-1.414 pi/N)) and LaguerreFilter (four poles at gamma): the difference of two streams
/// after j common values is at most 64 j^3 r^j for the pole radius r — stated at the first j where that is below 1e-9, i.e. far below
/// the 2^-6 of the generic units, so that a recursion which stops contracting near its fixed point is seen
fn tight_fading<T: Dom>(vk: VK, r: f64, s: usize, m: usize) {
    let (mut a, mut b) = (chain::<T>(&[vk.clone()]), chain::<T>(&[vk.clone()]));
    for i in 0..s { let (x, y) = (bounded_input::<T>(&format!("px{i}")), bounded_input::<T>(&format!("py{i}"))); a.update(x); b.update(y); }
    for j in 0..m { let z = bounded_input::<T>(&format!("z{j}")); a.update(z); b.update(z); }
    let bound = 64.0 * (m as f64).powi(3) * r.powi(m as i32);
    match (a.last(), b.last()) {
        (Some(p), Some(q)) => T::oblige_abs_le_boxed(&format!("{}: two streams differing only in their first {s} values are within 64 m^3 r^m = {bound:.3e} of each other after m = {m} common values (pole radius r = {r:.4})", vk.name()), p - q, bound),
        _ => T::oblige(&format!("{}: has a value after {} inputs", vk.name(), s + m), Cond::Bool(false)),
    }
}
/// TrendFlex / ReFlex: |out| <= 5 and ms >= 0 on every path (short streams)
fn flex_bounded<T: Dom>(vk: VK, k: usize) {
    let mut v = build::<T>(&vk, echo());
    for t in 0..k {
        let x = bounded_input::<T>(&format!("x{t}"));
        v.update(x);
        if let Some(o) = v.last() {
            match o.ratio_sqrt_parts() {
                Some((num, rad)) => { T::oblige(&format!("{} t={t}: |out| <= 5 (out = d/sqrt(ms), ms >= 0.04 d^2)", vk.name()), le(num * num, T::c(25.0) * rad)); T::oblige(&format!("{} t={t}: leaky mean square >= 0", vk.name()), le(T::zero(), rad)); }
                None => T::oblige(&format!("{} t={t}: |out| <= 5", vk.name()), abs_le(o, T::c(5.0))),
            }
        }
    }
}
/// TrendFlex / ReFlex: the deviation d (numerator of the output term) is a linear functional with fading memory
fn flex_fading<T: Dom>(vk: VK, s: usize, m: usize) {
    let (mut a, mut b) = (build::<T>(&vk, echo()), build::<T>(&vk, echo()));
    for i in 0..s { let (x, y) = (bounded_input::<T>(&format!("px{i}")), bounded_input::<T>(&format!("py{i}"))); a.update(x); b.update(y); }
    for j in 0..m { let z = bounded_input::<T>(&format!("z{j}")); a.update(z); b.update(z); }
    if let (Some(p), Some(q)) = (a.last(), b.last()) {
        if let (Some((dp, _)), Some((dq, _))) = (p.ratio_sqrt_parts(), q.ratio_sqrt_parts()) {
            T::oblige_abs_le_boxed(&format!("{}: deviation term bounded (|d| <= 64) after {} inputs bounded by 1", vk.name(), s + m), dp, 64.0);
            T::oblige_abs_le_boxed(&format!("{}: deviation terms of two streams differing only in their first {s} values are within 2^-6 after {m} common values", vk.name()), dp - dq, 1.0 / 64.0);
        }
    }
}
/// LaguerreRSI: CU - CD = L0 - L3 is a linear functional of the input; destructured from out = CU/(CU+CD)
fn lrsi_fading<T: Dom>(n: usize, s: usize, m: usize) {
    let vk = VK::LaguerreRSI(n);
    let (mut a, mut b) = (build::<T>(&vk, echo()), build::<T>(&vk, echo()));
    for i in 0..s { let (x, y) = (bounded_input::<T>(&format!("px{i}")), bounded_input::<T>(&format!("py{i}"))); a.update(x); b.update(y); }
    for j in 0..m { let z = bounded_input::<T>(&format!("z{j}")); a.update(z); b.update(z); }
    if let (Some(p), Some(q)) = (a.last(), b.last()) {
        if let (Some((cu_a, tot_a)), Some((cu_b, tot_b))) = (p.ratio_parts(), q.ratio_parts()) {
            let two = T::c(2.0);
            let (da, db) = (two * cu_a - tot_a, two * cu_b - tot_b); // CU - CD
            // four cascaded poles at gamma = 2/(N+1): after m common steps the difference is at most C m^3 gamma^m; checked against a loose explicit bound
            let g = 2.0 / (n as f64 + 1.0);
            let bound = (64.0 * (m as f64).powi(3) * g.powi(m as i32)).min(16.0).max(1e-6);
            T::oblige_abs_le_boxed(&format!("LaguerreRSI({n}): CU-CD of two streams differing only in their first {s} values differs by at most {bound:.3e} after {m} common values"), da - db, bound);
            T::oblige_abs_le_boxed(&format!("LaguerreRSI({n}): |CU-CD| <= 8 for inputs bounded by 1"), da, 8.0);
        }
    }
}
/// EFT with a memoryless average: once both windows hold only common values the difference halves every step
fn eft_contraction<T: Dom>(n: usize, s: usize, m: usize) {
    let vk = VK::EFT(n, Box::new(VK::Echo));
    let (mut a, mut b) = (build::<T>(&vk, echo()), build::<T>(&vk, echo()));
    for i in 0..s { let (x, y) = (T::input(&format!("px{i}")), T::input(&format!("py{i}"))); a.update(x); b.update(y); }
    let mut prev: Option<T> = None;
    for j in 0..m {
        let z = T::input(&format!("z{j}"));
        a.update(z); b.update(z);
        if let (Some(p), Some(q)) = (a.last(), b.last()) {
            let d = p - q;
            if j + 1 > n { if let Some(pd) = prev { T::oblige(&format!("EFT({n}) common step {j}: the difference between the two streams' outputs halves, or vanishes on a flat window (geometric convergence)"), Cond::Or(vec![eq(d, T::c(0.5) * pd), eq(d, T::zero())])); } }
            prev = Some(d);
        }
    }
}
/// EFT over an average that can overshoot: bounded finite output for bounded input (a panic / NaN is a violation)
fn eft_bounded<T: Dom>(n: usize, ma: VK, k: usize) {
    let vk = VK::EFT(n, Box::new(ma));
    let mut v = build::<T>(&vk, echo());
    for t in 0..k {
        let x = bounded_input::<T>(&format!("x{t}"));
        v.update(x);
        if let Some(o) = v.last() {
            T::oblige(&format!("{} t={t}: output is finite", vk.name()), Cond::Bool(o.is_finite()));
            T::oblige(&format!("{} t={t}: |out| <= ln 199 whatever the stream length", vk.name()), abs_le(o, T::c(199.0f64.ln())));
        }
    }
}
pub fn units(tier: Tier, _seed: u64) -> Vec<Unit> {
    let q = tier == Tier::Quick;
    let mut u = vec![];
    let ns: Vec<usize> = if q { vec![1, 2, 3, 4, 5, 6, 7, 8, 9] } else { vec![1, 2, 3, 4, 5, 6, 7, 8, 9, 10, 12, 16, 24, 32] };
    let ss: Vec<usize> = if q { vec![2] } else { vec![1, 2, 4] };
    for &n in &ns {
        for &s in &ss {
            let m = 8 * n.max(2);
            u.push(unit!(format!("C09/linear/Ema({n})/s={s}/m={m}"), linear_fading(vec![VK::Ema(n)], s, m, n)));
            u.push(unit!(format!("C09/linear/SuperSmoother({n})/s={s}/m={m}"), linear_fading(vec![VK::SuperSmoother(n)], s, m, n)));
            u.push(unit!(format!("C09/linear/CyberCycle({n})/s={s}/m={}", m + 8), linear_fading(vec![VK::CyberCycle(n)], s, m + 8, 1usize)));
            if s == ss[0] && n >= 2 {
                // private prefixes as long as the window (+2): what the warm-up phase leaves in the filter state must fade too
                let sl = n + 2;
                u.push(unit!(format!("C09/linear/Ema({n})/s={sl}/m={m}"), linear_fading(vec![VK::Ema(n)], sl, m, n)));
                u.push(unit!(format!("C09/linear/SuperSmoother({n})/s={sl}/m={m}"), linear_fading(vec![VK::SuperSmoother(n)], sl, m, n)));
                u.push(unit!(format!("C09/linear/CyberCycle({n})/s={sl}/m={}", m + 8), linear_fading(vec![VK::CyberCycle(n)], sl, m + 8, 1usize)));
            }
            if n >= 2 && n <= 16 { let mm = 8 * 2 * n; u.push(unit!(format!("C09/linear/Roofing({n},{n})/s={s}/m={mm}"), linear_fading(vec![VK::Roofing(n, n)], s, mm, 2 * n + 1))); }
            if n >= 2 && n <= 10 {
                u.push(unit!(format!("C09/linear/Ema({n}) over SuperSmoother({n})/s={s}/m={}", 2 * m), linear_fading(vec![VK::Ema(n), VK::SuperSmoother(n)], s, 2 * m, 2 * n)));
                u.push(unit!(format!("C09/linear/CyberCycle({n}) over Ema({n})/s={s}/m={}", 2 * m + 8), linear_fading(vec![VK::CyberCycle(n), VK::Ema(n)], s, 2 * m + 8, n)));
            }
        }
        if n >= 3 && n <= (if q { 9 } else { 16 }) {
            let m = 8 * n;
            for seed in 1..=(if q { 1u64 } else { 3u64 }) {
                let mut a = unit!(format!("C09/TrendFlex({n})/fading/s=2/m={m}/sample-path#{seed}"), flex_fading(VK::TrendFlex(n), 2usize, m)); a.concolic = Some(seed); u.push(a);
                let mut b = unit!(format!("C09/ReFlex({n})/fading/s=2/m={m}/sample-path#{seed}"), flex_fading(VK::ReFlex(n), 2usize, m)); b.concolic = Some(seed); u.push(b);
            }
        }
        if n >= 3 && n <= 5 {
            u.push(unit!(format!("C09/TrendFlex({n})/bounded/k=6"), flex_bounded(VK::TrendFlex(n), 6usize)));
            u.push(unit!(format!("C09/ReFlex({n})/bounded/k=6"), flex_bounded(VK::ReFlex(n), 6usize)));
        }
        if n >= 2 && n <= (if q { 4 } else { 9 }) { u.push(unit!(format!("C09/LaguerreRSI({n})/fading/s=1/m=6"), lrsi_fading(n, 1usize, if q { 5usize } else { 6usize }))); }
        if n >= 2 && n <= 3 { u.push(unit!(format!("C09/EFT({n},Echo)/contraction/s=1/m={}", n + 3), eft_contraction(n, 1usize, n + 3))); }
    }
    // window lengths far beyond the exhaustive range, for the linear filters whose coefficients depend on N only through alpha
    for &n in &(if q { vec![28usize, 41, 66] } else { vec![28usize, 41, 48, 66, 100, 128] }) {
        let m = 8 * n;
        u.push(unit!(format!("C09/linear/Ema({n})/s=2/m={m}"), linear_fading(vec![VK::Ema(n)], 2usize, m, n)));
        u.push(unit!(format!("C09/linear/SuperSmoother({n})/s=2/m={m}"), linear_fading(vec![VK::SuperSmoother(n)], 2usize, m, n)));
        u.push(unit!(format!("C09/linear/CyberCycle({n})/s=2/m={}", m + 8), linear_fading(vec![VK::CyberCycle(n)], 2usize, m + 8, 1usize)));
        let sl = n + 2;
        u.push(unit!(format!("C09/linear/Ema({n})/s={sl}/m={m}"), linear_fading(vec![VK::Ema(n)], sl, m, n)));
        u.push(unit!(format!("C09/linear/SuperSmoother({n})/s={sl}/m={m}"), linear_fading(vec![VK::SuperSmoother(n)], sl, m, n)));
        u.push(unit!(format!("C09/linear/CyberCycle({n})/s={sl}/m={}", m + 8), linear_fading(vec![VK::CyberCycle(n)], sl, m + 8, 1usize)));
    }
    for g in (if q { vec![0.0, 0.2, 0.5, 0.8] } else { vec![0.0, 0.2, 0.5, 0.8, 0.95] }) {
        let m = ((32.0 / (1.0 - g)) as usize).min(400);
        u.push(unit!(format!("C09/linear/LaguerreFilter({g})/s=2/m={m}"), linear_fading(vec![VK::LaguerreFilter(g)], 2usize, m, 1usize)));
    }
    for n in [2usize, 3, 5, 9, 20] {
        let rho = (n as f64 - 1.0) / (n as f64 + 1.0);
        let m = ((2e10f64).ln() / -rho.ln()).ceil() as usize;
        for sl in [1usize, n + 2] { u.push(unit!(format!("C09/geometric/Ema({n})/s={sl}/m={m}"), ema_geometric(n, sl, m))); }
    }
    let first_m = |r: f64| -> usize { let mut m = 8usize; while 64.0 * (m as f64).powi(3) * r.powi(m as i32) > 1e-9 { m += 1; } m };
    for n in [2usize, 3, 5, 9] {
        let r = (-1.414 * std::f64::consts::PI / n as f64).exp();
        let m = first_m(r);
        u.push(unit!(format!("C09/tight/SuperSmoother({n})/s=3/m={m}"), tight_fading(VK::SuperSmoother(n), r, 3usize, m)));
    }
    for g in [0.2f64, 0.5, 0.8] { let m = first_m(g); u.push(unit!(format!("C09/tight/LaguerreFilter({g})/s=3/m={m}"), tight_fading(VK::LaguerreFilter(g), g, 3usize, m))); }
    for ma in [VK::SuperSmoother(1), VK::SuperSmoother(2), VK::Ema(2)] {
        let mut x = unit!(format!("C09/EFT(2,{})/bounded/k=6", ma.name()), eft_bounded(2usize, ma.clone(), 6usize)); x.panic_is_violation = true; u.push(x);
    }
    u.push(unit!("C09/linear/LaguerreFilter(0.5) over Ema(4)/s=2/m=128", linear_fading(vec![VK::LaguerreFilter(0.5), VK::Ema(4)], 2usize, 128usize, 4usize)));
    for x in u.iter_mut() { x.budget_s = if q { 60.0 } else { 600.0 }; x.path_cap = if q { 600 } else { 5000 }; x.branch_nl_timeout_ms = Some(500); x.max_decisions = 20000; }
    u
}
pub fn meta() -> Meta {
    Meta {
        functions: vec!["Ema", "LaguerreFilter", "SuperSmoother", "RoofingFilter", "CyberCycle", "TrendFlex", "ReFlex", "LaguerreRSI", "EhlersFisherTransform — each ::{new,update,last}, two instances on streams with different prefixes and a common tail; two-level chains of the linear ones"],
        bounds: "N in {1..9} (quick) / {1..10,12,16,24,32} (thorough; Roofing to 16, two-level chains to 10), and for Ema/SuperSmoother/CyberCycle also N in {28,41,66} (quick) / {28,41,48,66,100,128}; private prefix length s=2 (quick) / {1,2,4}, and s=N+2 (a prefix covering the whole warm-up phase) for Ema/SuperSmoother/CyberCycle at every N >= 2; horizon m = 8N common values (16N for Roofing and two-level chains, 32/(1-gamma) for LaguerreFilter, gamma in {0,.2,.5,.8} quick, plus .95 with m=400 thorough); inputs are solver variables bounded by 1; one fixed gain bound 64 for all N (checked at every step up to 16, then every 8th); TrendFlex/ReFlex: output bound on all paths for k=6, fading posed on the deviation term d destructured from the output term d/sqrt(ms), along the comparison path followed by 1 (quick) / 3 (thorough) pseudo-random sample inputs (the `ms > 0` tests are nonlinear; the verdict covers every input following that path); LaguerreRSI: CU-CD = L0-L3 destructured from CU/(CU+CD), m=5/6 with an explicit geometric bound, up to the path cap; EFT: exact halving of the difference once the windows agree; SuperSmoother at N in {2,3,5,9} and LaguerreFilter at gamma in {.2,.5,.8}: the bound 64 m^3 r^m (r the pole radius) at the first m where it is below 1e-9; Ema at N in {2,3,5,9,20}: the exact geometric bound 2((N-1)/(N+1))^j on the difference after j = m/2 and j = m common values, m the first step at which that bound is below 1e-10",
        outside: vec!["'unbounded length': the claim is the horizon s+m", "N > 32 (N > 128 for the three linear filters named above)", "an instability slower than 2^(1/(8N)) per step", "f64 rounding"],
        assumptions: vec!["term destructuring: where the output term the real code built is num/sqrt(rad) or num/den, obligations are posed on those sub-terms"],
    }
}
