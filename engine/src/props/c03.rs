//! C03 — finite memory: two histories agreeing on their last K values give the same output.
use crate::dom::*;
use crate::props::{Meta, Tier};
use crate::run::Unit;
use crate::sym::Cond;
use crate::unit;
use crate::views::*;
use sliding_features::View;

#[derive(Clone, Copy, Debug, PartialEq)]
enum Except { None, MyRsiFlat, RocZeroBase }
/// harness M-window mean (an independent "windowed moving average" for PFE)
#[derive(Clone)]
struct WinMean<T> { m: usize, q: std::collections::VecDeque<T> }
impl<T: Dom> View<T> for WinMean<T> {
    fn update(&mut self, v: T) { if self.q.len() >= self.m { self.q.pop_front(); } self.q.push_back(v); }
    fn last(&self) -> Option<T> { if self.q.is_empty() { None } else { Some(self.q.iter().fold(T::zero(), |a, b| a + *b) / T::u(self.q.len())) } }
}
fn mk<T: Dom>(vk: &VK, harness_ma: Option<usize>) -> DynV<T> {
    match (vk, harness_ma) {
        (VK::PFE(n, _), Some(m)) => DynV::new(sliding_features::sliding_windows::PolarizedFractalEfficiency::new(echo::<T>(), WinMean { m, q: Default::default() }, *n)),
        _ => build::<T>(vk, echo()),
    }
}
fn finite_memory<T: Dom>(vk: VK, harness_ma: Option<usize>, kk: usize, p: usize, q: usize, ex: Except, extra: usize) {
    let (mut a, mut b) = (mk::<T>(&vk, harness_ma), mk::<T>(&vk, harness_ma));
    for i in 0..p { a.update(T::input(&format!("a{i}"))); }
    for i in 0..q { b.update(T::input(&format!("b{i}"))); }
    let mut shared: Vec<T> = vec![];
    for t in 0..kk + extra {
        let s = T::input(&format!("s{t}"));
        shared.push(s);
        a.update(s);
        b.update(s);
        if t + 1 < kk { continue; }
        let recent = &shared[shared.len() - kk..];
        match ex {
            Except::MyRsiFlat => T::assume(Cond::not(Cond::And(recent.windows(2).map(|w| eq(w[0], w[1])).collect()))),
            Except::RocZeroBase => T::assume(Cond::Ne(recent[0], T::zero())),
            Except::None => {}
        }
        T::oblige(&format!("{} prefixes {p}/{q}, after {} shared values (K={kk}): both histories give the same output", vk.name(), t + 1), opt_eq(a.last(), b.last()));
    }
}
#[derive(Clone, Copy, Debug, PartialEq)]
enum Tail { Decreasing, Increasing, AltThenFlat }
/// long shared suffix (much longer than the window) after private prefixes of different lengths: state that is maintained
/// lazily or by counters (compaction, periodic rebuilds) gets out of phase between the two histories
fn finite_memory_long<T: Dom>(vk: VK, kk: usize, p: usize, q: usize, tail: Tail, len: usize) {
    let (mut a, mut b) = (mk::<T>(&vk, None), mk::<T>(&vk, None));
    for i in 0..p { a.update(T::input(&format!("a{i}"))); }
    for i in 0..q { b.update(T::input(&format!("b{i}"))); }
    let mut prev: Option<T> = None;
    for t in 0..len {
        let s = match tail {
            Tail::Decreasing => match prev { None => T::input("s0"), Some(x) => { let d = T::input(&format!("posd{t}")); T::assume(lt(T::zero(), d)); x - d } },
            Tail::Increasing => match prev { None => T::input("s0"), Some(x) => { let d = T::input(&format!("posd{t}")); T::assume(lt(T::zero(), d)); x + d } },
            Tail::AltThenFlat => if t + 7 < len { if t % 2 == 0 { T::input("u") } else { T::input("v") } } else if t + 2 < len { T::input("c") } else { T::input(&format!("s{t}")) },
        };
        prev = Some(s);
        a.update(s);
        b.update(s);
        if t + 1 >= kk { T::oblige(&format!("{} prefixes {p}/{q}, after {} shared values (K={kk}, {tail:?} suffix): both histories give the same output", vk.name(), t + 1), opt_eq(a.last(), b.last())); }
    }
}
/// one history starts fresh, the other has a long private prefix (alternating between two symbolic values, `plen` long);
/// shared suffix: a flat run of N+1 equal values followed by free values
fn finite_memory_longprefix<T: Dom>(vk: VK, kk: usize, plen: usize, n: usize) {
    let (mut a, mut b) = (mk::<T>(&vk, None), mk::<T>(&vk, None));
    let (u, v) = (T::input("u"), T::input("v"));
    for i in 0..plen { b.update(if i % 2 == 0 { u } else { v }); }
    let c = T::input("c");
    for t in 0..n + 1 + 3 {
        let s = if t <= n { c } else { T::input(&format!("s{t}")) };
        a.update(s);
        b.update(s);
        if t + 1 >= kk { T::oblige(&format!("{} fresh vs {plen}-value prefix, after {} shared values (K={kk}): both histories give the same output", vk.name(), t + 1), opt_eq(a.last(), b.last())); }
    }
}
pub fn units(tier: Tier, _seed: u64) -> Vec<Unit> {
    let q_ = tier == Tier::Quick;
    let ns: Vec<usize> = if q_ { vec![1, 2] } else { vec![1, 2, 3, 4] };
    let pq: Vec<(usize, usize)> = if q_ { vec![(0, 1), (1, 2)] } else { vec![(0, 1), (1, 0), (1, 2), (2, 1), (0, 3), (3, 1)] };
    let mut u = vec![];
    for &n in &ns {
        let m3 = n.max(3);
        let mut rows: Vec<(VK, Option<usize>, usize, Except)> = vec![
            (VK::Sma(n), None, n, Except::None), (VK::Cumulative(n), None, n, Except::None), (VK::Min(n), None, n, Except::None), (VK::Max(n), None, n, Except::None),
            (VK::Roc(n), None, n + 1, Except::RocZeroBase), (VK::WelfordOnline(n), None, n, Except::None), (VK::Vst(n), None, n, Except::None), (VK::Vsct(n), None, n, Except::None),
            (VK::HLNormalizer(n), None, n, Except::None), (VK::BinaryEntropy(n), None, n, Except::None), (VK::CoG(n), None, n, Except::None),
            (VK::Rsi(n), None, n + 1, Except::None), (VK::MyRSI(n), None, n + 1, Except::MyRsiFlat), (VK::Alma(n), None, 2 * n, Except::None),
        ];
        if n >= 3 || n == 1 {
            rows.push((VK::CTI(m3), None, m3, Except::None));
            if m3 <= 4 { rows.push((VK::NET(m3), None, m3, Except::None)); }
            for m in [1usize, 2] {
                rows.push((VK::PFE(m3, Box::new(VK::Sma(m))), None, m3 + m - 1, Except::None));
                rows.push((VK::PFE(m3, Box::new(VK::Echo)), Some(m), m3 + m - 1, Except::None));
            }
        }
        for (vk, hm, kk, ex) in rows {
            for &(p, q) in &pq {
                let heavy = matches!(vk, VK::HLNormalizer(_) | VK::NET(_) | VK::Min(_) | VK::Max(_) | VK::Rsi(_));
                if heavy && n >= 3 && p + q > 3 { continue; }
                if matches!(vk, VK::HLNormalizer(_)) && n >= 4 { continue; }
                let extra = if heavy && n >= 3 { 0 } else { 1 };
                let tag = match hm { Some(m) => format!("{}+harness-mean({m})", vk.name()), None => vk.name() };
                u.push(unit!(format!("C03/{tag}/K={kk}/prefix={p},{q}"), finite_memory(vk.clone(), hm, kk, p, q, ex, extra)));
            }
        }
    }
    for &n in &(if q_ { vec![1usize, 2, 3] } else { vec![1usize, 2, 3, 4, 6] }) {
        let len = 10 * n + 8;
        for (p, q) in [(1usize, 3usize), (0, 2)] {
            for tail in [Tail::Decreasing, Tail::Increasing] {
                for vk in [VK::Min(n), VK::Max(n), VK::HLNormalizer(n)] { u.push(unit!(format!("C03/{}/K={n}/prefix={p},{q}/long-{tail:?}/len={len}", vk.name()), finite_memory_long(vk.clone(), n, p, q, tail, len))); }
            }
            if n >= 2 { for vk in [VK::Sma(n), VK::Cumulative(n), VK::WelfordOnline(n), VK::Vst(n), VK::Vsct(n), VK::Max(n), VK::BinaryEntropy(n), VK::CoG(n)] {
                u.push(unit!(format!("C03/{}/K={n}/prefix={p},{q}/long-AltThenFlat/len={len}", vk.name()), finite_memory_long(vk.clone(), n, p, q, Tail::AltThenFlat, len)));
            } }
        }
    }
    for &n in &(if q_ { vec![2usize, 3] } else { vec![2usize, 3, 4, 6] }) {
        for vk in [VK::Sma(n), VK::Cumulative(n), VK::WelfordOnline(n), VK::Vst(n), VK::Vsct(n), VK::Min(n), VK::Max(n), VK::HLNormalizer(n), VK::BinaryEntropy(n), VK::CoG(n), VK::Roc(n), VK::Rsi(n), VK::MyRSI(n), VK::Alma(n)] {
            let kk = match vk { VK::Roc(_) | VK::Rsi(_) | VK::MyRSI(_) => n + 1, VK::Alma(_) => 2 * n, _ => n };
            // MyRSI's documented exception (flat suffix) and Roc's zero base do not arise: the suffix ends with free values and K counts from its end
            if matches!(vk, VK::MyRSI(_) | VK::Roc(_) | VK::Alma(_)) { continue; }
            u.push(unit!(format!("C03/{}/K={kk}/fresh-vs-prefix={}", vk.name(), 8 * n + 3), finite_memory_longprefix(vk.clone(), kk, 8 * n + 3, n)));
        }
    }
    // very long private prefixes (hundreds of evictions): periodic maintenance (a re-summation every so many evictions, a ring buffer
    // that has wrapped, a counter that saturates) only comes into play after far more than 10 windows
    for &n in &(if q_ { vec![5usize, 7] } else { vec![3usize, 5, 7, 10, 13] }) {
        let plen = 107 * n + 3;
        for vk in [VK::Sma(n), VK::Cumulative(n), VK::WelfordOnline(n), VK::Min(n), VK::Max(n), VK::HLNormalizer(n), VK::BinaryEntropy(n), VK::CoG(n), VK::Rsi(n), VK::CTI(n)] {
            let kk = match vk { VK::Rsi(_) => n + 1, _ => n };
            u.push(unit!(format!("C03/{}/K={kk}/fresh-vs-prefix={plen}", vk.name()), finite_memory_longprefix(vk.clone(), kk, plen, n)));
        }
    }
    for x in u.iter_mut() { x.budget_s = if q_ { 30.0 } else { 900.0 }; x.max_decisions = 60000; x.path_cap = if q_ { 3000 } else { 20000 }; }
    let first_big = u.len();
    for &n in &(if q_ { vec![5usize, 8] } else { vec![5usize, 6, 8, 12, 16] }) {
        for (vk, kk, ex) in [(VK::Sma(n), n, Except::None), (VK::Cumulative(n), n, Except::None), (VK::Min(n), n, Except::None), (VK::Max(n), n, Except::None), (VK::Roc(n), n + 1, Except::RocZeroBase), (VK::WelfordOnline(n), n, Except::None),
            (VK::HLNormalizer(n), n, Except::None), (VK::BinaryEntropy(n), n, Except::None), (VK::CoG(n), n, Except::None), (VK::Rsi(n), n + 1, Except::None), (VK::MyRSI(n), n + 1, Except::MyRsiFlat), (VK::Alma(n), 2 * n, Except::None), (VK::CTI(n), n, Except::None), (VK::NET(n.min(10)), n.min(10), Except::None)] {
            u.push(unit!(format!("C03/{}/K={kk}/prefix=2,5/sample-path", vk.name()), finite_memory(vk.clone(), None, kk, 2usize, 5usize, ex, 2usize)));
        }
    }
    for x in u.iter_mut().skip(first_big) { x.concolic = Some(7); x.budget_s = 30.0; x.max_decisions = 60000; }
    u
}
pub fn meta() -> Meta {
    Meta {
        functions: vec!["Sma", "Cumulative", "Min", "Max", "Roc", "WelfordOnline", "Vst", "Vsct", "HLNormalizer", "BinaryEntropy", "CenterOfGravity", "CorrelationTrendIndicator", "NoiseEliminationTechnology", "Rsi", "MyRSI", "Alma", "PolarizedFractalEfficiency over Sma(M) and over a harness M-window mean — each ::{new,update,last}, two instances"],
        bounds: "N in {1,2} (quick) / {1..4} (thorough) (CTI/NET/PFE at their minimum 3, NET to 4); private prefix lengths (p,q) in {(0,1),(1,2)} (quick) / {(0,1),(1,0),(1,2),(2,1),(0,3),(3,1)} (thorough); shared suffix K as in the statement, plus one further shared value; prefix values are unconstrained reals ('arbitrarily large'); exceptions encoded as assumptions on the shared suffix only (MyRSI: suffix not flat; Roc: x_(t-N) != 0); all comparison outcomes of both instances; in addition long shared suffixes (10N+8 values: strictly decreasing / increasing for Min, Max, HLNormalizer; alternating-then-flat for Sma, Cumulative, WelfordOnline, Vst, Vsct, Max, BinaryEntropy, CoG) after prefixes (1,3) and (0,2), N in {1,2,3} (quick) / {1,2,3,4,6}; and a fresh history against one with an (8N+3)-value alternating private prefix, shared suffix = flat run of N+1 then 3 free values, N in {2,3} / {2,3,4,6}; and N in {5,8} (quick) / {5,6,8,12,16} with prefixes (2,5) along a sampled comparison path; and a fresh history against one with a (107N+3)-value alternating private prefix, N in {5,7} (quick) / {3,5,7,10,13}, for Sma, Cumulative, WelfordOnline, Min, Max, HLNormalizer, BinaryEntropy, CoG, Rsi, CTI",
        outside: vec!["prefixes longer than 3 (a leak needing >= 4 stale values to show)", "N > 4", "'up to rounding': decided over the reals"],
        assumptions: vec![],
    }
}
