//! C07 — bounded indicators stay inside their documented range (decided over the reals).
use crate::dom::*;
use crate::props::{Meta, Tier};
use crate::run::Unit;
use crate::sym::Cond;
use crate::unit;
use crate::views::*;
use sliding_features::View;

/// generic "every reported value satisfies bound(out)" runner over the catalogue
#[derive(Clone, Debug)]
enum Bound { Range(f64, f64), Ge0, VsctBound(usize), CogBound, Ln199 }
thread_local! { /// the range is stated from this step on (the earlier updates are silent)
    static STATE_FROM: std::cell::Cell<usize> = const { std::cell::Cell::new(0) }; }
fn range_late<T: Dom>(vk: VK, k: usize, b: Bound, from: usize, label: String) { STATE_FROM.with(|p| p.set(from)); let r = std::panic::catch_unwind(std::panic::AssertUnwindSafe(|| range::<T>(vk, k, b, false, label))); STATE_FROM.with(|p| p.set(0)); if let Err(e) = r { std::panic::resume_unwind(e); } }
fn range<T: Dom>(vk: VK, k: usize, b: Bound, positive: bool, label: String) {
    let from = STATE_FROM.with(|p| p.get());
    let mut v = build::<T>(&vk, echo());
    let mut cnt = 0usize;
    for t in 0..k {
        let x = T::input(&format!("{}x{t}", if positive { "pos" } else { "" }));
        if positive { T::assume(lt(T::zero(), x)); }
        v.update(x);
        cnt += 1;
        if t < from { continue; }
        let Some(o) = v.last() else { continue };
        let c = match &b {
            Bound::Range(lo, hi) => Cond::between(T::c(*lo), o, T::c(*hi)),
            Bound::Ge0 => le(T::zero(), o),
            Bound::VsctBound(n) => { let m = cnt.min(*n); // |o| <= (n-1)/sqrt(n), n = values in the window; on the parts of num/sqrt(rad): num^2 n <= (n-1)^2 rad
                match o.ratio_sqrt_parts() { Some((num, rad)) => Cond::Le(num * num * T::u(m), T::u((m - 1) * (m - 1)) * rad), None => Cond::Le(o * o * T::u(m), T::u((m - 1) * (m - 1))) } }
            Bound::CogBound => { let m = match vk { VK::CoG(n) => cnt.min(n), _ => 1 }; abs_le(o, T::r(m as i64 - 1, 2)) }
            Bound::Ln199 => abs_le(o, T::c(199.0f64.ln())),
        };
        T::oblige(&format!("{} t={t}: {label}", vk.name()), c);
    }
}
/// Min <= Sma, Alma, newest <= Max over the same window
fn sandwich<T: Dom>(n: usize, k: usize) {
    let (mut mn, mut mx, mut sma, mut alma) = (build::<T>(&VK::Min(n), echo()), build::<T>(&VK::Max(n), echo()), build::<T>(&VK::Sma(n), echo()), build::<T>(&VK::Alma(n), echo()));
    for t in 0..k {
        let x = T::input(&format!("x{t}"));
        mn.update(x); mx.update(x); sma.update(x); alma.update(x);
        let (Some(lo), Some(hi)) = (mn.last(), mx.last()) else { T::oblige(&format!("Min/Max(N={n}) t={t}: have values"), Cond::Bool(false)); continue };
        T::oblige(&format!("N={n} t={t}: Min <= newest value <= Max"), Cond::between(lo, x, hi));
        if let Some(s) = sma.last() { T::oblige(&format!("N={n} t={t}: Min <= Sma <= Max over the same window"), Cond::between(lo, s, hi)); }
        if let Some(a) = alma.last() { T::oblige(&format!("N={n} t={t}: Min <= Alma <= Max over the same window"), Cond::between(lo, a, hi)); }
    }
}
fn clip<T: Dom>(k: usize) {
    let c = T::input("clip");
    let mut g = sliding_features::pure_functions::GTE::new(echo::<T>(), c);
    let mut l = sliding_features::pure_functions::LTE::new(echo::<T>(), c);
    for t in 0..k {
        let x = T::input(&format!("x{t}"));
        g.update(x); l.update(x);
        match (g.last(), l.last()) { (Some(a), Some(b)) => { T::oblige(&format!("GTE t={t}: out >= clip"), le(c, a)); T::oblige(&format!("LTE t={t}: out <= clip"), le(b, c)); } _ => T::oblige(&format!("GTE/LTE t={t}: have values"), Cond::Bool(false)) }
    }
}
fn drawdown<T: Dom>(k: usize) {
    let mut v = build::<T>(&VK::Drawdown, echo());
    let mut prev: Option<T> = None;
    for t in 0..k {
        let x = T::input(&format!("x{t}"));
        T::assume(lt(T::zero(), x));
        v.update(x);
        let Some(o) = v.last() else { T::oblige(&format!("Drawdown t={t}: has a value"), Cond::Bool(false)); continue };
        T::oblige(&format!("Drawdown t={t}: 0 <= out < 1 for positive inputs"), Cond::And(vec![le(T::zero(), o), lt(o, T::one())]));
        if let Some(p) = prev { T::oblige(&format!("Drawdown t={t}: non-decreasing"), le(p, o)); }
        prev = Some(o);
    }
}
/// PFE: (A) |out| <= 1; (B) wherever it leaves [-1,1] it is exactly the reference formula of C11 that does (see known_findings.json)
fn pfe<T: Dom>(n: usize, k: usize, ma: VK, beyond_reference_only: bool) {
    let mut v = build::<T>(&VK::PFE(n, Box::new(ma.clone())), echo());
    let mut refma = build::<T>(&ma, echo());
    let mut h: Vec<T> = vec![];
    for t in 0..k {
        let x = T::input(&format!("x{t}"));
        h.push(x);
        v.update(x);
        // reference (C11): signed sqrt((x_t-x_(t-N+1))^2+N^2) / sum over the N-2 most recent steps of sqrt(d^2+1), smoothed by the MA
        let mut spec = None;
        if h.len() >= n {
            let w = window(&h, n);
            let mut s = T::zero();
            for i in 0..n - 2 { let d = w[n - 1 - i] - w[n - 2 - i]; s = s + (d * d + T::one()).sqrt(); }
            let d0 = w[n - 1] - w[0];
            let mut p = (d0 * d0 + T::u(n * n)).sqrt() / s;
            if w[n - 1] < w[n - 2] { p = -p; }
            refma.update(p);
            spec = refma.last();
        }
        let Some(o) = v.last() else { continue };
        if beyond_reference_only {
            let is_ref = match spec { Some(s) => eq(o, s), None => Cond::Bool(false) };
            T::oblige(&format!("PFE(N={n},{}) t={t}: outside [-1,1] only where the C11 reference formula itself is", ma.name()), Cond::Or(vec![abs_le(o, T::one()), is_ref]));
        } else {
            T::oblige(&format!("PFE(N={n},{}) t={t}: |out| <= 1", ma.name()), abs_le(o, T::one()));
        }
    }
}
pub fn units(tier: Tier, _seed: u64) -> Vec<Unit> {
    let ns: Vec<usize> = if tier == Tier::Quick { vec![2, 3] } else { vec![2, 3, 4, 5] };
    let mut u = vec![];
    for &n in &ns {
        let k = 2 * n + 2;
        let mut add = |vk: VK, b: Bound, pos: bool, label: &str, kk: usize| { let id = format!("C07/{}/k={kk}", vk.name()); let l = label.to_string(); u.push(unit!(id, range(vk, kk, b, pos, l))); };
        add(VK::Rsi(n), Bound::Range(0.0, 100.0), false, "0 <= out <= 100", k);
        add(VK::MyRSI(n), Bound::Range(-1.0, 1.0), false, "|out| <= 1", k);
        add(VK::HLNormalizer(n), Bound::Range(-1.0, 1.0), false, "|out| <= 1", if n >= 4 { n + 3 } else { k });
        if n >= 3 { add(VK::CTI(n), Bound::Range(-1.0, 1.0), false, "|out| <= 1", n + 2); }
        if n >= 3 && n <= 5 { add(VK::NET(n), Bound::Range(-1.0, 1.0), false, "|out| <= 1", n + 2); }
        if n <= 4 { add(VK::LaguerreRSI(n), Bound::Range(0.0, 1.0), false, "0 <= out <= 1", if tier == Tier::Quick { 4 } else { 5 }); }
        add(VK::BinaryEntropy(n), Bound::Range(0.0, 1.0), false, "0 <= out <= 1", k);
        // sqrt-normalised statistics: full length up to N=3, a shorter stream beyond (nlsat does not finish otherwise)
        let kw = if n <= 3 { k } else { n + 2 };
        add(VK::WelfordOnline(n), Bound::Ge0, false, "out >= 0", kw);
        add(VK::Vsct(n), Bound::VsctBound(n), false, "|out| <= (n-1)/sqrt(n)", kw);
        add(VK::CoG(n), Bound::CogBound, true, "|out| <= (n-1)/2 for positive inputs", k);
        if n <= 3 { add(VK::EFT(n, Box::new(VK::Echo)), Bound::Ln199, false, "|out| <= ln 199", if tier == Tier::Quick { n + 3 } else { n + 4 }); }
        if n == 2 { add(VK::EFT(n, Box::new(VK::Ema(2))), Bound::Ln199, false, "|out| <= ln 199", 5); }
        // an average that can overshoot its inputs: the clamp to +-0.99 must act on the smoothed value
        if n == 2 { add(VK::EFT(n, Box::new(VK::SuperSmoother(1))), Bound::Ln199, false, "|out| <= ln 199", 5); add(VK::EFT(n, Box::new(VK::SuperSmoother(2))), Bound::Ln199, false, "|out| <= ln 199", 6); }
        u.push(unit!(format!("C07/Min<=Sma,Alma,newest<=Max/N={n}/k={k}"), sandwich(n, if n >= 4 { n + 3 } else { k })));
        if n >= 3 && n <= 4 {
            for ma in [VK::Echo, VK::Sma(2), VK::Ema(2)] {
                let kk = n + 2;
                if n == 3 { u.push(unit!(format!("C07/PFE-range/N={n}/{}/k={kk}", ma.name()), pfe(n, kk, ma.clone(), false))); }
                u.push(unit!(format!("C07/PFE-beyond-reference/N={n}/{}/k={kk}", ma.name()), pfe(n, kk, ma.clone(), true)));
            }
        }
    }
    // larger windows along sampled comparison paths
    let first_big = u.len();
    for &n in &(if tier == Tier::Quick { vec![8usize, 16] } else { vec![6usize, 8, 12, 16, 32] }) {
        let k = n + 6;
        for (vk, b, pos, label) in [(VK::Rsi(n), Bound::Range(0.0, 100.0), false, "0 <= out <= 100"), (VK::MyRSI(n), Bound::Range(-1.0, 1.0), false, "|out| <= 1"), (VK::HLNormalizer(n), Bound::Range(-1.0, 1.0), false, "|out| <= 1"),
            (VK::NET(n.min(12)), Bound::Range(-1.0, 1.0), false, "|out| <= 1"), (VK::BinaryEntropy(n), Bound::Range(0.0, 1.0), false, "0 <= out <= 1"), (VK::WelfordOnline(n), Bound::Ge0, false, "out >= 0"), (VK::CoG(n), Bound::CogBound, true, "|out| <= (n-1)/2 for positive inputs"),
            (VK::LaguerreRSI(n), Bound::Range(0.0, 1.0), false, "0 <= out <= 1")] {
            let l = label.to_string();
            u.push(unit!(format!("C07/{}/k={k}/sample-path", vk.name()), range(vk.clone(), k, b.clone(), pos, l.clone())));
        }
        u.push(unit!(format!("C07/Min<=Sma,Alma,newest<=Max/N={n}/k={k}/sample-path"), sandwich(n, k)));
    }
    // more than a thousand updates at a small window (periodic maintenance, a wrapped ring buffer), the range stated for the last 24
    // updates only: it must hold for every input that follows the sampled comparison path, so a term that went missing at update 1024
    // shows even though the sample itself stays in range
    for (vk, b, label) in [(VK::MyRSI(5), Bound::Range(-1.0, 1.0), "|out| <= 1"), (VK::BinaryEntropy(5), Bound::Range(0.0, 1.0), "0 <= out <= 1"), (VK::HLNormalizer(5), Bound::Range(-1.0, 1.0), "|out| <= 1")] {
        u.push(unit!(format!("C07/{}/k=1040/stated-from-1016/sample-path", vk.name()), range_late(vk.clone(), 1040usize, b.clone(), 1016usize, label.to_string())));
    }
    for x in u.iter_mut().skip(first_big) { x.concolic = Some(9); x.budget_s = 30.0; x.max_decisions = 600000; }
    u.push(unit!("C07/WelfordRolling/k=8", range(VK::WelfordRolling, 8usize, Bound::Ge0, false, "out >= 0".to_string())));
    u.push(unit!("C07/Tanh/k=4", range(VK::Tanh, 4usize, Bound::Range(-1.0, 1.0), false, "|out| <= 1".to_string())));
    u.push(unit!("C07/GTE,LTE/k=5", clip(5usize)));
    u.push(unit!(format!("C07/Drawdown/k={}", if tier == Tier::Quick { 5 } else { 7 }), drawdown(if tier == Tier::Quick { 5usize } else { 7usize })));
    u
}
pub fn meta() -> Meta {
    Meta {
        functions: vec!["Rsi", "MyRSI", "HLNormalizer", "CorrelationTrendIndicator", "NoiseEliminationTechnology", "Tanh", "PolarizedFractalEfficiency (identity, Sma(2), Ema(2) average)", "LaguerreRSI", "BinaryEntropy", "EhlersFisherTransform (identity, Ema(2) and SuperSmoother(1|2) average)", "WelfordOnline", "WelfordRolling", "Vsct", "Min", "Max", "Sma", "Alma", "GTE", "LTE", "Drawdown", "CenterOfGravity — each ::{new,update,last}"],
        bounds: "N in {2,3} (quick) / {2..5} (thorough; NET to 5, LaguerreRSI to 4, EFT to 3); k = 2N+2 (N+2..N+4 for the heavily branching views); inputs unconstrained reals (positive where the statement says so); symbolic clip point for GTE/LTE; all comparison outcomes; in addition N in {8,16} (quick) / {6,8,12,16,32} along a sampled comparison path for the range obligations that stay within the solver's reach; MyRSI(5), BinaryEntropy(5), HLNormalizer(5) also over 1040 updates along a sampled comparison path, the range stated for the last 24 updates",
        outside: vec!["the f64 clause 'up to a few ulps of the bound': decided over the reals here; engine K covers comparison-only kernels (see kani/)", "N > 5, longer streams"],
        assumptions: vec!["|tanh| < 1, exp > 0 and monotonicity of ln with ln(199) < 5.2933049 are axioms about libm functions (uninterpreted in the solver)", "PFE: the documented bound contradicts the formula C11 prescribes (flat window gives N/(N-2)); this is a known finding, and a second obligation checks that PFE leaves [-1,1] only where that reference formula does"],
    }
}
