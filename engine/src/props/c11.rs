//! C11 — Ehlers-style indicators follow their defining difference equations: at every step the
//! output equals a batch re-evaluation, from the complete input history, of the cited paper's
//! equations under the crate's conventions (DESIGN.md Appendix A).
use crate::dom::*;
use crate::props::{Meta, Tier};
use crate::run::Unit;
use crate::sym::Cond;
use crate::unit;
use crate::views::*;
use sliding_features::View;

fn pi<T: Dom>() -> T { T::c(std::f64::consts::PI) }
/// two-pole super smoother coefficients from the decay argument `d` and angle `th`: a = exp(-d), b = 2 a cos(th)
fn ss_coef<T: Dom>(d: T, th: T) -> (T, T, T) { let a = (-d).exp(); let b = T::c(2.0) * a * th.cos(); let c3 = -(a * a); (T::one() - b - c3, b, c3) }
/// f_t = c1 (x_t + x_(t-1))/2 + b f_(t-1) + c3 f_(t-2), zero initial state, x_0 := `x0`
fn smooth<T: Dom>(h: &[T], c: (T, T, T), x0: T) -> Vec<T> {
    let mut f: Vec<T> = vec![];
    for t in 0..h.len() {
        let xp = if t == 0 { x0 } else { h[t - 1] };
        let f1 = if t >= 1 { f[t - 1] } else { T::zero() };
        let f2 = if t >= 2 { f[t - 2] } else { T::zero() };
        f.push(c.0 * (h[t] + xp) / T::c(2.0) + c.1 * f1 + c.2 * f2);
    }
    f
}
fn super_smoother_spec<T: Dom>(h: &[T], n: usize) -> Option<T> {
    if h.len() < n { return None; }
    let th = T::c(1.414) * pi::<T>() / T::u(n);
    smooth(h, ss_coef(th, th), T::zero()).last().copied()
}
fn roofing_spec<T: Dom>(h: &[T], n: usize, m: usize) -> Option<T> {
    let th = T::c(0.707) * T::c(2.0) * pi::<T>() / T::u(n);
    let alpha = (th.cos() + th.sin() - T::one()) / th.cos();
    let two = T::c(2.0);
    let g = (T::one() - alpha / two) * (T::one() - alpha / two);
    let mut hp: Vec<T> = vec![];
    for t in 0..h.len() {
        let x1 = if t >= 1 { h[t - 1] } else { T::zero() };
        let x2 = if t >= 2 { h[t - 2] } else { T::zero() };
        let h1 = if t >= 1 { hp[t - 1] } else { T::zero() };
        let h2 = if t >= 2 { hp[t - 2] } else { T::zero() };
        hp.push(g * (h[t] - two * x1 + x2) + two * (T::one() - alpha) * h1 - (T::one() - alpha) * (T::one() - alpha) * h2);
    }
    // HP_t for t >= N+2 (1-based) feeds a fresh SuperSmoother(M)
    if hp.len() < n + 2 { return None; }
    super_smoother_spec(&hp[n + 1..], m)
}
fn laguerre_ladder<T: Dom>(h: &[T], g: T, first_value_init: bool) -> Vec<[T; 4]> {
    let mut l: Vec<[T; 4]> = vec![];
    for t in 0..h.len() {
        if t == 0 && first_value_init { l.push([h[0]; 4]); continue; }
        let p = if t == 0 { [T::zero(); 4] } else { l[t - 1] };
        let l0 = (T::one() - g) * h[t] + g * p[0];
        let l1 = -g * l0 + p[0] + g * p[1];
        let l2 = -g * l1 + p[1] + g * p[2];
        let l3 = -g * l2 + p[2] + g * p[3];
        l.push([l0, l1, l2, l3]);
    }
    l
}
fn laguerre_filter_spec<T: Dom>(h: &[T], g: T) -> Option<T> {
    let l = *laguerre_ladder(h, g, true).last()?;
    Some((l[0] + T::c(2.0) * l[1] + T::c(2.0) * l[2] + l[3]) / T::c(6.0))
}
/// CU/(CU+CD) per step (None while CU+CD == 0 and nothing held yet); decided per path
fn laguerre_rsi_spec<T: Dom>(h: &[T], n: usize) -> Option<T> {
    let g = T::c(2.0) / (T::u(n) + T::one());
    let mut held = None;
    for l in laguerre_ladder(h, g, false) {
        let (mut cu, mut cd) = (T::zero(), T::zero());
        for i in 0..3 { if l[i] >= l[i + 1] { cu = cu + (l[i] - l[i + 1]) } else { cd = cd + (l[i + 1] - l[i]) } }
        if cu + cd != T::zero() { held = Some(cu / (cu + cd)); }
    }
    held
}
fn cyber_cycle_spec<T: Dom>(h: &[T], n: usize) -> Option<T> {
    if h.is_empty() { return None; }
    let hist = n.max(6);
    let a = T::c(2.0) / (T::u(n) + T::one());
    let two = T::c(2.0);
    let s = |t: usize| (h[t] + two * h[t - 1] + two * h[t - 2] + h[t - 3]) / T::c(6.0);
    let mut c: Vec<T> = vec![];
    for t in 0..h.len() {
        if t + 1 < hist { c.push(T::zero()); continue; }
        let k = (T::one() - T::c(0.5) * a) * (T::one() - T::c(0.5) * a);
        c.push(k * (s(t) - two * s(t - 1) + s(t - 2)) + two * (T::one() - a) * c[t - 1] - (T::one() - a) * (T::one() - a) * c[t - 2]);
    }
    c.last().copied()
}
/// (d_t, ms_t) sequences of TrendFlex / ReFlex over the last n = min(t,N) smoother values
fn flex_core<T: Dom>(h: &[T], n: usize, reflex: bool) -> Vec<(T, T)> {
    let c = ss_coef(T::c(8.88442402435) / T::u(n), T::c(4.44221201218) / T::u(n));
    let f = smooth(h, c, h[0]);
    let mut ms = T::zero();
    let mut out = vec![];
    for t in 0..h.len() {
        let m = (t + 1).min(n);
        let slope = (f[t + 1 - m] - f[t]) / T::u(n);
        let mut d = T::zero();
        for j in 0..m { d = d + if reflex { (f[t] + T::u(j) * slope) - f[t - j] } else { f[t] - f[t - j] }; }
        d = d / T::u(n);
        ms = T::c(0.04) * d * d + T::c(0.96) * ms;
        out.push((d, ms));
    }
    out
}
/// out = d/sqrt(ms)  <=>  out^2 ms = d^2 and out*d >= 0 (ms > 0)
/// Where the output term the real code built is structurally num/sqrt(rad), the obligation is posed on those
/// sub-terms (num == d, rad == ms): polynomial, instead of an identity between two square roots.
fn ratio_is<T: Dom>(o: T, d: T, ms: T) -> Cond<T> {
    match o.ratio_sqrt_parts() { Some((num, rad)) => Cond::And(vec![eq(num, d), eq(rad, ms)]), None => Cond::And(vec![eq(o * o * ms, d * d), le(T::zero(), o * d)]) }
}

#[derive(Clone, Debug, PartialEq)]
enum Kind { Exact, Tol(f64) }
fn linear<T: Dom>(vk: VK, k: usize, kind: Kind) {
    let mut v = build::<T>(&vk, echo());
    let mut h: Vec<T> = vec![];
    for t in 0..k {
        let x = if kind != Kind::Exact { T::input_unit(&format!("x{t}")) } else { T::input(&format!("x{t}")) };
        h.push(x);
        v.update(x);
        let spec = match &vk { VK::SuperSmoother(n) => super_smoother_spec(&h, *n), VK::Roofing(n, m) => roofing_spec(&h, *n, *m), VK::LaguerreFilter(g) => laguerre_filter_spec(&h, T::c(*g)), VK::CyberCycle(n) => cyber_cycle_spec(&h, *n), _ => unreachable!() };
        let name = format!("{} t={t}", vk.name());
        match (v.last(), spec) {
            (None, None) => {}
            (Some(o), Some(s)) => match kind { Kind::Exact => T::oblige(&format!("{name}: out == the paper's difference equation re-evaluated from the full history"), eq(o, s)),
                Kind::Tol(e) => T::oblige_abs_le_boxed(&format!("{name}: |out - paper's difference equation| <= {e} for |x| <= 1 (crate writes 4.4422 for 1.414*pi)"), o - s, e) },
            _ => T::oblige(&format!("{name}: reports exactly when the reference does (warm-up)"), Cond::Bool(false)),
        }
    }
}
/// LaguerreFilter with a symbolic gamma in [0,1): out == ladder re-evaluated with that same gamma (a polynomial identity in gamma and the inputs)
fn laguerre_filter_sym_gamma<T: Dom>(k: usize) {
    let g = T::input("gamma");
    T::assume(Cond::And(vec![le(T::zero(), g), lt(g, T::one())]));
    let mut v = sliding_features::sliding_windows::LaguerreFilter::new(sliding_features::pure_functions::Echo::<T>::new(), g);
    let mut h: Vec<T> = vec![];
    for t in 0..k {
        let x = T::input(&format!("x{t}"));
        h.push(x);
        v.update(x);
        T::oblige(&format!("LaguerreFilter(gamma symbolic in [0,1)) t={t}: out == the four-stage ladder with that gamma"), opt_eq(v.last(), laguerre_filter_spec(&h, g)));
    }
}
fn laguerre_rsi<T: Dom>(n: usize, k: usize) {
    let mut v = build::<T>(&VK::LaguerreRSI(n), echo());
    let mut h: Vec<T> = vec![];
    for t in 0..k {
        let x = T::input(&format!("x{t}"));
        h.push(x);
        v.update(x);
        T::oblige(&format!("LaguerreRSI({n}) t={t}: out == CU/(CU+CD) of the four-stage Laguerre ladder (gamma = 2/(N+1), zero initial state)"), opt_eq(v.last(), laguerre_rsi_spec(&h, n)));
    }
}
fn flex<T: Dom>(n: usize, k: usize, reflex: bool) {
    let mut v = build::<T>(&(if reflex { VK::ReFlex(n) } else { VK::TrendFlex(n) }), echo());
    let mut h: Vec<T> = vec![];
    let name = if reflex { "ReFlex" } else { "TrendFlex" };
    let mut held: Option<T> = None;
    for t in 0..k {
        let x = T::input(&format!("x{t}"));
        h.push(x);
        v.update(x);
        let (d, ms) = *flex_core(&h, n, reflex).last().unwrap();
        let label = format!("{name}({n}) t={t}: out == (slope-corrected) mean deviation of the super-smoother / root of its 0.04/0.96 leaky mean square");
        if ms > T::zero() {
            match v.last() { Some(o) => { T::oblige(&label, ratio_is(o, d, ms)); held = Some(o); } None => T::oblige(&label, Cond::Bool(false)) }
        } else if reflex {
            T::oblige(&format!("{name}({n}) t={t}: previous output held while the mean square is 0"), opt_eq(v.last(), held));
        } else {
            T::oblige(&format!("{name}({n}) t={t}: 0 while the mean square is 0"), opt_eq(v.last(), Some(T::zero())));
            held = v.last();
        }
    }
}
fn fisher<T: Dom>(n: usize, k: usize, ma: VK) {
    let mut v = build::<T>(&VK::EFT(n, Box::new(ma.clone())), echo());
    let mut sm = build::<T>(&ma, echo());
    let mut h: Vec<T> = vec![];
    let mut out: Option<T> = None;
    let half = T::c(0.5);
    for t in 0..k {
        let x = T::input(&format!("x{t}"));
        h.push(x);
        v.update(x);
        let w = window(&h, n);
        let (mut hi, mut lo) = (w[0], w[0]);
        for y in w { if *y > hi { hi = *y } if *y < lo { lo = *y } }
        if hi == lo { out = Some(T::zero()); }
        else {
            let val = T::c(2.0) * ((x - lo) / (hi - lo) - half);
            sm.update(val);
            if let Some(s) = sm.last() {
                let s = if s < T::c(-0.99) { T::c(-0.99) } else if s > T::c(0.99) { T::c(0.99) } else { s };
                out = Some(half * ((T::one() + s) / (T::one() - s)).ln() + half * out.unwrap_or(T::zero()));
            }
        }
        T::oblige(&format!("EFT({n},{}) t={t}: out == 0.5 ln((1+v)/(1-v)) + 0.5 previous, v = clamped smoothed min-max normalisation of the window", ma.name()), opt_eq(v.last(), out));
    }
}
fn pfe<T: Dom>(n: usize, k: usize, ma: VK) {
    let mut v = build::<T>(&VK::PFE(n, Box::new(ma.clone())), echo());
    let mut sm = build::<T>(&ma, echo());
    let mut h: Vec<T> = vec![];
    for t in 0..k {
        let x = T::input(&format!("x{t}"));
        h.push(x);
        v.update(x);
        let mut spec = None;
        if h.len() >= n {
            let c = h.len() - 1;
            let mut s = T::zero();
            for i in 0..n - 2 { let d = h[c - i] - h[c - i - 1]; s = s + (d * d + T::one()).sqrt(); }
            let d0 = h[c] - h[c + 1 - n];
            let mut p = (d0 * d0 + T::u(n) * T::u(n)).sqrt() / s;
            if h[c] < h[c - 1] { p = -p; }
            sm.update(p);
            spec = sm.last();
        }
        T::oblige(&format!("PFE({n},{}) t={t}: out == MA of the signed ratio sqrt((x_t-x_(t-N+1))^2+N^2) / sum over N-2 steps of sqrt(d^2+1)", ma.name()), opt_eq(v.last(), spec));
    }
}
pub fn units(tier: Tier, _seed: u64) -> Vec<Unit> {
    let q = tier == Tier::Quick;
    let mut u = vec![];
    let ss_ns: Vec<usize> = if q { vec![1, 2, 3, 4, 5, 6, 7, 8, 9, 10, 12, 16, 20, 32] } else { vec![1, 2, 3, 4, 5, 6, 7, 8, 9, 10, 16, 20, 48] };
    for &n in &ss_ns {
        let k = (2 * n + 4).max(12).min(40).max(n + 8);
        u.push(unit!(format!("C11/SuperSmoother({n})/k={k}"), linear(VK::SuperSmoother(n), k, Kind::Tol(1e-5))));
        if n >= 2 { let kk = (n + 2 + 4 + 8).min(40).max(n + 4 + 6); u.push(unit!(format!("C11/Roofing({n},4)/k={kk}"), linear(VK::Roofing(n, 4), kk, Kind::Tol(1e-5)))); }
        if n >= 2 && n <= 8 { let kk = (2 * n + 10).min(40); u.push(unit!(format!("C11/Roofing({n},{n})/k={kk}"), linear(VK::Roofing(n, n), kk, Kind::Tol(1e-5)))); }
        u.push(unit!(format!("C11/CyberCycle({n})/k={k}"), linear(VK::CyberCycle(n), k.max(14), Kind::Exact)));
    }
    // window lengths beyond the exhaustive range (the recursion is linear: one path, decided by the normal form and linear queries)
    for &n in &(if q { vec![33usize, 65, 100] } else { vec![33usize, 64, 65, 100, 128, 200] }) {
        let k = n + 12;
        u.push(unit!(format!("C11/CyberCycle({n})/k={k}"), linear(VK::CyberCycle(n), k, Kind::Exact)));
        u.push(unit!(format!("C11/SuperSmoother({n})/k={k}"), linear(VK::SuperSmoother(n), k, Kind::Tol(1e-5))));
    }
    if !q { u.push(unit!("C11/Roofing(10,10)/k=40", linear(VK::Roofing(10, 10), 40usize, Kind::Tol(1e-5)))); }
    for g in [0.0, 0.5, 0.8] { u.push(unit!(format!("C11/LaguerreFilter({g})/k=12"), linear(VK::LaguerreFilter(g), 12usize, Kind::Exact))); }
    u.push(unit!("C11/LaguerreFilter(gamma symbolic)/k=5", laguerre_filter_sym_gamma(5usize)));
    for g in [0.95, 0.995] { u.push(unit!(format!("C11/LaguerreFilter({g})/k=12"), linear(VK::LaguerreFilter(g), 12usize, Kind::Exact))); }
    for &n in &(if q { vec![2usize, 3] } else { vec![2usize, 3, 4, 5, 10] }) { let k = if q { 4 } else { 5 }; u.push(unit!(format!("C11/LaguerreRSI({n})/k={k}"), laguerre_rsi(n, k))); }
    for &n in &(if q { vec![3usize, 4] } else { vec![3usize, 4, 5, 6, 10, 16] }) {
        let k = if q { n + 3 } else { (n + 4).min(12) };
        u.push(unit!(format!("C11/TrendFlex({n})/k={k}"), flex(n, k, false)));
        u.push(unit!(format!("C11/ReFlex({n})/k={k}"), flex(n, k, true)));
    }
    for &n in &(if q { vec![2usize, 3] } else { vec![2usize, 3, 4] }) {
        let k = n + 3;
        u.push(unit!(format!("C11/EFT({n},Echo)/k={k}"), fisher(n, k, VK::Echo)));
        if n <= 3 { u.push(unit!(format!("C11/EFT({n},Ema(2))/k={k}"), fisher(n, k, VK::Ema(2)))); }
        if n == 2 { u.push(unit!(format!("C11/EFT({n},SuperSmoother(2))/k={}", k + 1), fisher(n, k + 1, VK::SuperSmoother(2)))); }
    }
    for &n in &(if q { vec![3usize, 4] } else { vec![3usize, 4, 5, 6] }) {
        let k = n + 3;
        u.push(unit!(format!("C11/PFE({n},Echo)/k={k}"), pfe(n, k, VK::Echo)));
        u.push(unit!(format!("C11/PFE({n},Ema(2))/k={k}"), pfe(n, k, VK::Ema(2))));
    }
    for x in u.iter_mut() { x.budget_s = if q { 120.0 } else { 900.0 }; }
    // larger windows for the branching views, along the comparison path of a pseudo-random sample input
    let first_big = u.len();
    for &n in &(if q { vec![8usize, 16] } else { vec![6usize, 8, 12, 16, 32] }) {
        let k = n + 6;
        u.push(unit!(format!("C11/TrendFlex({n})/k={k}/sample-path"), flex(n, k, false)));
        u.push(unit!(format!("C11/ReFlex({n})/k={k}/sample-path"), flex(n, k, true)));
        u.push(unit!(format!("C11/LaguerreRSI({n})/k={k}/sample-path"), laguerre_rsi(n, k)));
        u.push(unit!(format!("C11/EFT({n},Echo)/k={k}/sample-path"), fisher(n, k, VK::Echo)));
        u.push(unit!(format!("C11/EFT({n},Ema(3))/k={k}/sample-path"), fisher(n, k, VK::Ema(3))));
        u.push(unit!(format!("C11/PFE({n},Echo)/k={k}/sample-path"), pfe(n, k, VK::Echo)));
        u.push(unit!(format!("C11/PFE({n},Ema(3))/k={k}/sample-path"), pfe(n, k, VK::Ema(3))));
    }
    for &n in &(if q { vec![35usize, 68] } else { vec![35usize, 37, 48, 68, 99] }) {
        let k = n + 4;
        u.push(unit!(format!("C11/EFT({n},Echo)/k={k}/sample-path"), fisher(n, k, VK::Echo)));
        u.push(unit!(format!("C11/PFE({n},Echo)/k={k}/sample-path"), pfe(n, k, VK::Echo)));
    }
    for x in u.iter_mut().skip(first_big) { x.concolic = Some(13); x.budget_s = 40.0; x.max_decisions = 60000; }
    u
}
pub fn meta() -> Meta {
    Meta {
        functions: vec!["SuperSmoother", "RoofingFilter", "LaguerreFilter", "LaguerreRSI", "CyberCycle", "TrendFlex", "ReFlex", "EhlersFisherTransform (identity and Ema(2) average)", "PolarizedFractalEfficiency (identity and Ema(2) average) — each ::{new,update,last}"],
        bounds: "SuperSmoother/Roofing(N,4 and N,N)/CyberCycle: N in {1..10,12,16,20,32} (quick) / {1..10,16,20,48} (thorough), k = max(2N+4,12) capped at 40; LaguerreFilter gamma in {0,0.5,0.8,0.95,0.995}, k=12, and symbolic gamma in [0,1), k=5; LaguerreRSI N in {2,3} / {2..5,10}, k=4/5, all comparison paths (up to the 20000-path cap, reported when hit); TrendFlex/ReFlex N in {3,4} / {3..6,10,16}, k=N+3; EFT N in {2,3} / {2,3,4}; PFE N in {3,4} / {3..6}, k=N+3; inputs unconstrained reals (|x|<=1 where the obligation is a 1e-5 tolerance); in addition TrendFlex, ReFlex, LaguerreRSI, EFT, PFE at N in {8,16} (quick) / {6,8,12,16,32}, k=N+6, along a sampled comparison path; CyberCycle and SuperSmoother also at N in {33,65,100} (quick) / {33,64,65,100,128,200} with k=N+12; EFT and PFE also at N in {35,68} (quick) / {35,37,48,68,99}, k=N+4, along a sampled comparison path",
        outside: vec!["window lengths and stream lengths beyond those listed", "f64 rounding", "TrendFlex/ReFlex below N=3 (the crate's window then holds fewer than the two previous smoother values the recursion reads)"],
        assumptions: vec!["reference coefficients use the same libm (exp, cos, sin of concrete arguments) as the crate, so a changed literal or formula shows as a different rational coefficient", "where the crate writes the truncated literal 4.4422 for 1.414*pi (SuperSmoother, Roofing) the obligation is |impl - spec| <= 1e-5 on |x| <= 1", "sqrt exact (axiomatised), ln uninterpreted with congruence"],
    }
}
