//! C06 — CTI = Pearson(values, time), NET = Kendall tau over all pairs, CoG formula.
use crate::dom::*;
use crate::props::{Meta, Tier};
use crate::run::Unit;
use crate::sym::Cond;
use crate::unit;
use sliding_features::{pure_functions::Echo, sliding_windows::*, View};

thread_local! { /// > 0: the stream cycles through that many symbolic values
    static PERIOD: std::cell::Cell<usize> = const { std::cell::Cell::new(0) }; }
fn xin<T: Dom>(t: usize) -> T { let p = PERIOD.with(|p| p.get()); if p > 0 { T::input(&format!("c{}", t % p)) } else { T::input(&format!("x{t}")) } }
fn with_period(period: usize, f: impl FnOnce()) { PERIOD.with(|p| p.set(period)); let r = std::panic::catch_unwind(std::panic::AssertUnwindSafe(f)); PERIOD.with(|p| p.set(0)); if let Err(e) = r { std::panic::resume_unwind(e); } }
fn net_def_p<T: Dom>(n: usize, k: usize, period: usize) { with_period(period, || net_def::<T>(n, k)) }
fn net_neg_p<T: Dom>(n: usize, k: usize, period: usize) { with_period(period, || net_neg::<T>(n, k)) }
fn cog_def_p<T: Dom>(n: usize, k: usize, period: usize) { with_period(period, || cog_def::<T>(n, k)) }
fn cti_neg_p<T: Dom>(n: usize, k: usize, period: usize) { with_period(period, || cti_neg::<T>(n, k)) }
fn cti_def<T: Dom>(n: usize, k: usize) {
    let mut v = CorrelationTrendIndicator::new(Echo::new(), n);
    let mut h: Vec<T> = vec![];
    for t in 0..k {
        let x = xin::<T>(t);
        h.push(x);
        v.update(x);
        if h.len() < n { continue; }
        let w = window(&h, n);
        let nn = T::u(n);
        // centred sums, scaled by n to stay polynomial:  cx_i = n x_i - S,  ci = n i - sum(i)
        let s = sum(w);
        let si = (0..n).sum::<usize>();
        let cx: Vec<T> = w.iter().map(|x| nn * *x - s).collect();
        let ci: Vec<T> = (0..n).map(|i| T::u(n * i) - T::u(si)).collect();
        let cov = cx.iter().zip(&ci).fold(T::zero(), |a, (p, q)| a + *p * *q);
        let vx = cx.iter().fold(T::zero(), |a, p| a + *p * *p);
        let vi = ci.iter().fold(T::zero(), |a, p| a + *p * *p);
        let Some(o) = v.last() else { T::oblige(&format!("CTI(N={n}) t={t}: has a value"), Cond::Bool(false)); continue };
        // o = cov / sqrt(vx*vi)  <=>  o^2 vx vi = cov^2 and sign(o) = sign(cov);  0 when a variance is 0
        let degenerate = Cond::Or(vec![eq(vx, T::zero()), eq(vi, T::zero())]);
        let full = Cond::Or(vec![Cond::And(vec![degenerate.clone(), eq(o, T::zero())]), Cond::And(vec![Cond::not(degenerate.clone()), eq(o * o * vx * vi, cov * cov), le(T::zero(), o * cov)])]);
        let mut alts = vec![];
        // the real code returns num/sqrt(rad): cov = n*num and vx*vi = n^2*rad (polynomial identities)
        if let Some((num, rad)) = o.ratio_sqrt_parts() { alts.push(Cond::And(vec![Cond::not(degenerate), eq(num * nn, cov), eq(rad * nn * nn, vx * vi)])); }
        alts.push(full);
        T::oblige_alt(&format!("CTI(N={n}) t={t}: out == Pearson correlation of the window with its time index (0 if a variance is 0)"), alts);
        let rising = Cond::And(w.windows(2).map(|p| lt(p[0], p[1])).collect());
        let falling = Cond::And(w.windows(2).map(|p| lt(p[1], p[0])).collect());
        let _ = (rising, falling); // +-1 on monotone windows is NOT implied by Pearson (only by Kendall); the statement's corollary for CTI holds for linear windows
        // linear window (equal increments, non-zero) => +-1
        let d = w[1] - w[0];
        let linear = Cond::And(w.windows(2).map(|p| eq(p[1] - p[0], d)).collect());
        T::oblige(&format!("CTI(N={n}) t={t}: +1 on a linearly rising window, -1 on a linearly falling one"), Cond::And(vec![
            Cond::implies(Cond::And(vec![linear.clone(), lt(T::zero(), d)]), eq(o, T::one())),
            Cond::implies(Cond::And(vec![linear, lt(d, T::zero())]), eq(o, -T::one()))]));
    }
}
fn cti_neg<T: Dom>(n: usize, k: usize) {
    let (mut v, mut u) = (CorrelationTrendIndicator::new(Echo::new(), n), CorrelationTrendIndicator::new(Echo::new(), n));
    for t in 0..k {
        let x = xin::<T>(t);
        v.update(x); u.update(-x);
        if t + 1 < n { continue; }
        if let (Some(a), Some(b)) = (v.last(), u.last()) { T::oblige_alt(&format!("CTI(N={n}) t={t}: CTI(-x) == -CTI(x)"), rel_alts(b, a, -T::one(), eq(b, -a), true)); }
    }
}
/// Kendall tau over all n(n-1)/2 pairs of the values currently in the window, ties contribute 0
fn net_def<T: Dom>(n: usize, k: usize) {
    let mut v = NoiseEliminationTechnology::new(Echo::new(), n);
    let mut h: Vec<T> = vec![];
    for t in 0..k {
        let x = xin::<T>(t);
        h.push(x);
        v.update(x);
        let w = window(&h, n);
        let m = w.len();
        if m < 2 { continue; }
        let mut num: i64 = 0; // concrete per path: each pair's order is a solver-decided branch
        for i in 0..m { for j in i + 1..m { if w[j] > w[i] { num += 1 } else if w[j] < w[i] { num -= 1 } } }
        let pairs = (m * (m - 1) / 2) as i64;
        match v.last() {
            Some(o) => {
                if m == n { T::oblige(&format!("NET(N={n}) t={t}: out == Kendall tau of the window against time over all n(n-1)/2 pairs (ties 0)"), eq(o, T::r(num, pairs))); }
                else { T::oblige(&format!("NET(N={n}) t={t}: (window not yet full, n={m}) out == Kendall tau over the values currently in the window"), eq(o, T::r(num, pairs))); }
            }
            None => T::oblige(&format!("NET(N={n}) t={t}: has a value once two values are in the window"), Cond::Bool(false)),
        }
    }
}
fn net_neg<T: Dom>(n: usize, k: usize) {
    let (mut v, mut u) = (NoiseEliminationTechnology::new(Echo::new(), n), NoiseEliminationTechnology::new(Echo::new(), n));
    for t in 0..k {
        let x = xin::<T>(t);
        v.update(x); u.update(-x);
        if t + 1 < n { continue; }
        if let (Some(a), Some(b)) = (v.last(), u.last()) { T::oblige(&format!("NET(N={n}) t={t}: NET(-x) == -NET(x)"), eq(b, -a)); }
    }
}
/// NET depends only on the order of the values: a second stream with the same pairwise order gives the same output
fn net_order<T: Dom>(n: usize, k: usize) {
    let (mut v, mut u) = (NoiseEliminationTechnology::new(Echo::new(), n), NoiseEliminationTechnology::new(Echo::new(), n));
    let (mut hx, mut hy): (Vec<T>, Vec<T>) = (vec![], vec![]);
    for t in 0..k {
        let (x, y) = (T::input(&format!("x{t}")), T::input(&format!("y{t}")));
        for i in 0..hx.len() {
            // same order relation between every earlier pair
            T::assume(Cond::And(vec![Cond::Or(vec![Cond::not(lt(hx[i], x)), lt(hy[i], y)]), Cond::Or(vec![Cond::not(lt(x, hx[i])), lt(y, hy[i])]), Cond::Or(vec![Cond::not(eq(hx[i], x)), eq(hy[i], y)])]));
        }
        hx.push(x); hy.push(y);
        v.update(x); u.update(y);
        if t + 1 < n { continue; }
        T::oblige(&format!("NET(N={n}) t={t}: order-isomorphic streams give the same output"), opt_eq(v.last(), u.last()));
    }
}
fn cog_def<T: Dom>(n: usize, k: usize) {
    let mut v = CenterOfGravity::new(Echo::new(), n);
    let mut h: Vec<T> = vec![];
    for t in 0..k {
        let x = xin::<T>(t);
        h.push(x);
        v.update(x);
        let w = window(&h, n);
        let m = w.len();
        let den = sum(w);
        // k = 1 newest
        let num = w.iter().rev().enumerate().fold(T::zero(), |a, (i, x)| a + T::u(i + 1) * *x);
        let Some(o) = v.last() else { T::oblige(&format!("CoG(N={n}) t={t}: has a value"), Cond::Bool(false)); continue };
        T::oblige(&format!("CoG(N={n}) t={t}: out == (n+1)/2 - sum k x_(t-k+1) / sum x (0 if the denominator is 0)"),
            Cond::Or(vec![Cond::And(vec![eq(den, T::zero()), eq(o, T::zero())]), Cond::And(vec![Cond::Ne(den, T::zero()), eq((T::r(m as i64 + 1, 2) - o) * den, num)])]));
        let constant = Cond::And(w.iter().map(|y| eq(*y, w[0])).chain([Cond::Ne(w[0], T::zero())]).collect());
        T::oblige(&format!("CoG(N={n}) t={t}: 0 on a constant non-zero window"), Cond::implies(constant, eq(o, T::zero())));
    }
}
fn monotone_pm1<T: Dom>(n: usize, k: usize) {
    let mut v = NoiseEliminationTechnology::new(Echo::new(), n);
    let mut h: Vec<T> = vec![];
    for t in 0..k {
        let x = xin::<T>(t);
        h.push(x);
        v.update(x);
        if h.len() < n { continue; }
        let w = window(&h, n);
        let rising = Cond::And(w.windows(2).map(|p| lt(p[0], p[1])).collect());
        let falling = Cond::And(w.windows(2).map(|p| lt(p[1], p[0])).collect());
        if let Some(o) = v.last() {
            T::oblige(&format!("NET(N={n}) t={t}: +1 on a strictly increasing window, -1 on a strictly decreasing one"), Cond::And(vec![Cond::implies(rising, eq(o, T::one())), Cond::implies(falling, eq(o, -T::one()))]));
        }
    }
}
pub fn units(tier: Tier, seed: u64) -> Vec<Unit> {
    let ns: Vec<usize> = if tier == Tier::Quick { vec![3, 4] } else { vec![3, 4, 5, 6] };
    let mut u = vec![];
    for &n in &ns {
        let k = n + 2;
        u.push(unit!(format!("C06/CTI-definition/N={n}/k={k}"), cti_def(n, k)));
        u.push(unit!(format!("C06/CTI-negation/N={n}/k={k}"), cti_neg(n, k)));
        u.push(unit!(format!("C06/CoG-definition/N={n}/k={k}"), cog_def(n, k)));
        if n <= 5 {
            u.push(unit!(format!("C06/NET-definition/N={n}/k={k}"), net_def(n, k)));
            u.push(unit!(format!("C06/NET-negation/N={n}/k={k}"), net_neg(n, k)));
            u.push(unit!(format!("C06/NET-monotone/N={n}/k={k}"), monotone_pm1(n, k)));
        }
        if n <= 4 { u.push(unit!(format!("C06/NET-order-only/N={n}/k={k}"), net_order(n, k))); }
    }
    let big: Vec<(usize, usize)> = if tier == Tier::Quick { vec![(8, 12), (12, 16), (3, 40)] } else { vec![(7, 11), (8, 12), (12, 16), (16, 20), (3, 40), (4, 60)] };
    let first = u.len();
    for &(n, k) in &big {
        u.push(unit!(format!("C06/CTI-definition/N={n}/k={k}/sample-path"), cti_def(n, k)));
        u.push(unit!(format!("C06/CoG-definition/N={n}/k={k}/sample-path"), cog_def(n, k)));
        u.push(unit!(format!("C06/NET-definition/N={n}/k={k}/sample-path"), net_def(n, k)));
        u.push(unit!(format!("C06/NET-negation/N={n}/k={k}/sample-path"), net_neg(n, k)));
    }
    // more than a thousand updates (periodic maintenance, wrapped ring buffers) for the two views whose obligations stay linear
    u.push(unit!("C06/NET-definition/N=5/k=1040/sample-path", net_def(5usize, 1040usize)));
    u.push(unit!("C06/CoG-definition/N=5/k=1040/sample-path", cog_def(5usize, 1040usize)));
    for (i, x) in u.iter_mut().enumerate().skip(first) { x.concolic = Some(seed * 31 + 1 + (i as u64 % 2)); x.budget_s = 60.0; x.max_decisions = 600000; }
    // streams cycling through two or three symbolic values, all comparison outcomes, at larger windows: many exact ties, the largest
    // and smallest value duplicated, constant windows when the values coincide
    let first = u.len();
    for &n in &(if tier == Tier::Quick { vec![16usize, 17, 33, 40] } else { vec![9usize, 16, 17, 32, 33, 34, 40, 49, 64, 65] }) {
        for period in [2usize, 3] {
            let k = n + 2 * period;
            u.push(unit!(format!("C06/NET-definition/N={n}/k={k}/period-{period}"), net_def_p(n, k, period)));
            u.push(unit!(format!("C06/NET-negation/N={n}/k={k}/period-{period}"), net_neg_p(n, k, period)));
            u.push(unit!(format!("C06/CoG-definition/N={n}/k={k}/period-{period}"), cog_def_p(n, k, period)));
            u.push(unit!(format!("C06/CTI-negation/N={n}/k={k}/period-{period}"), cti_neg_p(n, k, period)));
        }
    }
    for x in u.iter_mut().skip(first) { x.budget_s = 30.0; x.path_cap = 200; x.max_decisions = 60000; }
    u
}
pub fn meta() -> Meta {
    Meta {
        functions: vec!["CorrelationTrendIndicator::{new,update,last}", "NoiseEliminationTechnology::{new,update,last}", "CenterOfGravity::{new,update,last}", "Echo::{update,last}"],
        bounds: "N in {3,4} (quick) / {3..6} (thorough; NET to 5, NET order-isomorphism to 4); k = N+2 (window full and shifted twice, so the oldest segment is exercised); inputs unconstrained reals; all comparison outcomes (for NET every pairwise order, ties included); in addition (N,k) in {(8,12),(12,16),(3,40)} (quick) / up to (16,20),(4,60) (thorough) along the comparison path of a pseudo-random sample input; NET (definition, negation), CoG (definition) and CTI (negation) also on streams cycling through two or three symbolic values, all comparison outcomes, at N in {16,17,33,40} (quick) / {9,16,17,32,33,34,40,49,64,65}",
        outside: vec!["N > 6", "f64 rounding", "CTI '+1 on any strictly increasing window' is decided for linearly increasing windows: Pearson correlation of a strictly increasing but non-linear window with time is < 1 by definition, so the corollary as literally worded only holds for NET; see DESIGN.md"],
        assumptions: vec![],
    }
}
