//! C17 — views are deterministic values: twins agree, last() is pure, clones are independent.
use crate::dom::*;
use crate::props::{Meta, Tier};
use crate::run::Unit;
use crate::sym::Cond;
use crate::unit;
use crate::views::*;
use sliding_features::View;

fn mk<T: Dom>(outer: &VK, inner: &Option<VK>) -> DynV<T> { let base = match inner { Some(i) => build::<T>(i, echo()), None => echo() }; build::<T>(outer, base) }
fn determinism<T: Dom>(outer: VK, inner: Option<VK>, k: usize, extra_last: Vec<usize>, clone_at: usize) {
    let positive = outer.needs_positive() || inner.as_ref().map_or(false, |i| i.needs_positive());
    let name = match &inner { Some(i) => format!("{} over {}", outer.name(), i.name()), None => outer.name() };
    let mut a = mk::<T>(&outer, &inner); // reference, polled once per step
    let mut b = mk::<T>(&outer, &inner); // twin on which last() is called extra times
    // twins that are NOT polled until a given step (a view whose last() has side effects differs from them)
    let mut first_poll = vec![1usize.min(k - 1), 2usize.min(k - 1), 3usize.min(k - 1), k / 2, k - 1];
    first_poll.sort_unstable(); first_poll.dedup();
    let mut unpolled: Vec<DynV<T>> = first_poll.iter().map(|_| mk::<T>(&outer, &inner)).collect();
    // clones of `a` taken after steps 0, 1, k/2 and the seed-chosen step, fed every later input
    let mut clone_steps = vec![0usize, 1, k / 2, clone_at, (k + 1) / 2 + 1, (k + 1) / 2 + 2];
    clone_steps.retain(|s| *s + 1 < k);
    clone_steps.sort_unstable(); clone_steps.dedup();
    let mut clones: Vec<(usize, DynV<T>)> = vec![];
    let mut d: Option<DynV<T>> = None;   // clone of `a`, starved for two steps, then caught up
    let mut d_frozen: Option<Option<T>> = None;
    let mut backlog: Vec<T> = vec![];
    for t in 0..k {
        let x = T::input(&format!("x{t}"));
        if positive { T::assume(lt(T::zero(), x)); }
        a.update(x);
        b.update(x);
        for u in unpolled.iter_mut() { u.update(x); }
        for _ in 0..extra_last[t % extra_last.len()] { let _ = b.last(); }
        T::oblige(&format!("{name} t={t}: twin with extra last() calls reports the identical value"), opt_ident(a.last(), b.last()));
        T::oblige(&format!("{name} t={t}: last() twice gives the identical value"), opt_ident(a.last(), a.last()));
        for (i, u) in unpolled.iter().enumerate() { if t >= first_poll[i] { T::oblige(&format!("{name} t={t}: twin first polled at step {} reports the identical value", first_poll[i]), opt_ident(a.last(), u.last())); } }
        for (at, cl) in clones.iter_mut() { cl.update(x); T::oblige(&format!("{name} t={t}: clone taken at step {at} continues exactly like the original"), opt_ident(a.last(), cl.last())); }
        if let Some(dl) = d.as_mut() {
            if let Some(fz) = d_frozen {
                backlog.push(x);
                T::oblige(&format!("{name} t={t}: feeding the original does not affect the clone"), opt_ident(dl.last(), fz));
                if backlog.len() == 2 { for y in backlog.drain(..) { dl.update(y); } d_frozen = None; T::oblige(&format!("{name} t={t}: clone catches up to the identical value"), opt_ident(a.last(), dl.last())); }
            } else { dl.update(x); T::oblige(&format!("{name} t={t}: caught-up clone keeps agreeing"), opt_ident(a.last(), dl.last())); }
        }
        if a.can_clone() && clone_steps.contains(&t) {
            let cl = a.clone();
            T::oblige(&format!("{name} t={t}: a fresh clone reports the identical value"), opt_ident(a.last(), cl.last()));
            clones.push((t, cl));
            if t == clone_at { let dd = a.clone(); d_frozen = Some(dd.last()); d = Some(dd); }
        }
    }
}
/// counters narrower than usize: a twin polled once early and then left alone for exactly `gap` updates (256 = u8, 65536 = u16 wrap)
/// must answer like a twin that was never polled and like one polled one step later. The stream cycles through three symbolic values.
fn silent_gap<T: Dom>(vk: VK, s0: usize, gap: usize) {
    let positive = vk.needs_positive();
    let vals: Vec<T> = (0..3).map(|i| { let x = T::input(&format!("{}x{i}", if positive { "pos" } else { "" })); if positive { T::assume(lt(T::zero(), x)); } x }).collect();
    let (mut a, mut b, mut c) = (mk::<T>(&vk, &None), mk::<T>(&vk, &None), mk::<T>(&vk, &None));
    for t in 0..s0 + gap + 2 {
        let x = vals[t % 3];
        a.update(x); b.update(x); c.update(x);
        if t + 1 == s0 { let _ = b.last(); }
        if t == s0 { let _ = c.last(); }
        if t + 1 == s0 + gap || t + 1 == s0 + gap + 1 || t + 1 == s0 + gap + 2 {
            let want = a.last();
            T::oblige(&format!("{} after {} updates: a twin polled at step {s0} and then left alone for {gap} updates reports the identical value", vk.name(), t + 1), opt_ident(want, b.last()));
            T::oblige(&format!("{} after {} updates: a twin polled at step {} and then left alone reports the identical value", vk.name(), t + 1, s0 + 1), opt_ident(want, c.last()));
        }
    }
}
/// feeding the clone does not affect the original
fn clone_isolated<T: Dom>(outer: VK, k: usize, clone_at: usize) {
    let mut a = mk::<T>(&outer, &None);
    let positive = outer.needs_positive();
    for t in 0..k {
        let x = T::input(&format!("x{t}"));
        if positive { T::assume(lt(T::zero(), x)); }
        a.update(x);
        if t == clone_at && a.can_clone() {
            let before = a.last();
            let mut cl = a.clone();
            for j in 0..2 { let y = T::input(&format!("y{j}")); if positive { T::assume(lt(T::zero(), y)); } cl.update(y); let _ = cl.last(); }
            T::oblige(&format!("{} t={t}: feeding a clone two values leaves the original's answer identical", outer.name()), opt_ident(a.last(), before));
        }
    }
    // and a fresh twin fed the same x's agrees at the end (the clone's inputs left no trace)
    let mut tw = mk::<T>(&outer, &None);
    for t in 0..k { tw.update(T::input(&format!("x{t}"))); }
    T::oblige(&format!("{}: after the clone was fed, the original still equals a fresh twin", outer.name()), opt_ident(a.last(), tw.last()));
}
/// two live instances must not interfere: A's outputs are the same whether or not a second instance B (same type; same or different
/// window length) is being fed a different stream in between — catches process-wide / shared state (static, thread_local, Rc)
fn interference<T: Dom>(vk: VK, other: VK, k: usize) {
    let positive = vk.needs_positive();
    let xs: Vec<T> = (0..k).map(|t| { let x = T::input(&format!("{}x{t}", if positive { "pos" } else { "" })); if positive { T::assume(lt(T::zero(), x)); } x }).collect();
    // reference: A alone
    let mut a0 = mk::<T>(&vk, &None);
    let alone: Vec<Option<T>> = xs.iter().map(|x| { a0.update(*x); a0.last() }).collect();
    drop(a0);
    // A again, interleaved with B on another stream, and with a short-lived third instance created and dropped midway
    let mut a = mk::<T>(&vk, &None);
    let mut b = mk::<T>(&other, &None);
    for t in 0..k {
        let z = T::input(&format!("{}z{t}", if positive { "pos" } else { "" }));
        if positive { T::assume(lt(T::zero(), z)); }
        b.update(z); let _ = b.last();
        if t == k / 2 { let mut c = mk::<T>(&vk, &None); c.update(z); let _ = c.last(); }
        a.update(xs[t]);
        T::oblige(&format!("{} t={t}: output unaffected by a second live instance ({}) fed another stream", vk.name(), other.name()), opt_ident(a.last(), alone[t]));
    }
}
/// like `interference`, but the other instance is constructed (and fed) before the view under test exists
fn interference2<T: Dom>(vk: VK, other: VK, k: usize) {
    let xs: Vec<T> = (0..k).map(|t| T::input(&format!("x{t}"))).collect();
    let mut a0 = mk::<T>(&vk, &None);
    let alone: Vec<Option<T>> = xs.iter().map(|x| { a0.update(*x); a0.last() }).collect();
    drop(a0);
    let mut b = mk::<T>(&other, &None);
    for t in 0..k { b.update(T::input(&format!("z{t}"))); let _ = b.last(); }
    let mut a = mk::<T>(&vk, &None);
    for t in 0..k {
        b.update(T::input(&format!("w{t}"))); let _ = b.last();
        a.update(xs[t]);
        T::oblige(&format!("{} t={t}: output unaffected by an older live instance {} of the same type", vk.name(), other.name()), opt_ident(a.last(), alone[t]));
    }
}
pub fn units(tier: Tier, seed: u64) -> Vec<Unit> {
    let q = tier == Tier::Quick;
    let ns: Vec<usize> = vec![2, 3];
    let mut rng = Rng::new(seed ^ 0xC17);
    let mut u = vec![];
    let mut seen = std::collections::HashSet::new();
    for &n in &ns {
        let mut vs = wrappers(n);
        vs.push(VK::Echo); vs.push(VK::Constant(1.5));
        vs.push(VK::PFE(3, Box::new(VK::Ema(2)))); vs.push(VK::EFT(2, Box::new(VK::Ema(2))));
        for vk in vs {
            if !seen.insert(vk.name()) { continue; }
            let heavy = matches!(vk, VK::NET(_) | VK::EFT(..) | VK::HLNormalizer(_) | VK::LaguerreRSI(_));
            // quick tier at N=3: only the views with few comparisons per step
            if q && n == 3 && (heavy || matches!(vk, VK::Rsi(_) | VK::MyRSI(_) | VK::Min(_) | VK::Max(_) | VK::BinaryEntropy(_) | VK::CTI(_) | VK::PFE(..) | VK::TrendFlex(_) | VK::ReFlex(_) | VK::CoG(_) | VK::Roc(_))) { continue; }
            let wl = match &vk { VK::Roofing(a, b) => a + b + 1, _ => n };
            let k = if heavy { (wl + 3).min(6) } else { 2 * wl + 3 };
            let pattern: Vec<usize> = (0..4).map(|_| rng.below(4)).collect();
            let clone_at = rng.below(k - 2);
            u.push(unit!(format!("C17/determinism/{}/k={k}/clone@{clone_at}", vk.name()), determinism(vk.clone(), None, k, pattern.clone(), clone_at)));
            let ki = if heavy || matches!(vk, VK::Rsi(_) | VK::Drawdown | VK::Min(_) | VK::Max(_)) { 4 } else { k.min(5) };
            u.push(unit!(format!("C17/clone-isolated/{}/k={ki}/clone@{}", vk.name(), clone_at.min(ki - 1)), clone_isolated(vk.clone(), ki, clone_at.min(ki - 1))));
        }
    }
    // silent gaps of 256 and 65536 updates between two polls (wrapping stamps / epochs)
    {
        let mut seen = std::collections::HashSet::new();
        for vk in wrappers(3) {
            if !seen.insert(vk.name()) { continue; }
            if matches!(vk, VK::TrendFlex(_) | VK::ReFlex(_)) { continue; } // a nonlinear comparison per update: 256 of them on one path exceed the budget
            let s0 = match &vk { VK::Roofing(a, b) => a + b + 2, _ => 5 };
            let mut x = unit!(format!("C17/silent-gap/{}/gap=256", vk.name()), silent_gap(vk.clone(), s0, 256usize)); x.concolic = Some(seed + 41); x.max_decisions = 400000; x.budget_s = 30.0; u.push(x);
            if !matches!(vk, VK::LaguerreRSI(_) | VK::Vsct(_) | VK::Vst(_) | VK::WelfordOnline(_) | VK::WelfordRolling) { /* those five build a nonlinear term that grows with every update */ let mut y = unit!(format!("C17/silent-gap/{}/gap=65536", vk.name()), silent_gap(vk.clone(), s0, 65536usize)); y.concolic = Some(seed + 42); y.max_decisions = 4000000; y.budget_s = 30.0; u.push(y); }
        }
    }
    // interference between live instances
    {
        let mut seen = std::collections::HashSet::new();
        for &n in &[2usize, 3] {
            for vk in wrappers(n) {
                if !seen.insert(vk.name()) { continue; }
                let heavy = matches!(vk, VK::NET(_) | VK::EFT(..) | VK::HLNormalizer(_) | VK::LaguerreRSI(_) | VK::Rsi(_) | VK::MyRSI(_) | VK::Min(_) | VK::Max(_));
                if q && n == 3 && heavy { continue; }
                let k = if heavy { 4 } else { 6 };
                // same parameters, and the neighbouring window length
                let other = wrappers(n + 1).into_iter().find(|o| std::mem::discriminant(o) == std::mem::discriminant(&vk)).unwrap_or(vk.clone());
                let mut a = unit!(format!("C17/interference/{} vs same/k={k}", vk.name()), interference(vk.clone(), vk.clone(), k)); a.concolic = if heavy { Some(seed + 31) } else { None }; u.push(a);
                let mut b = unit!(format!("C17/interference/{} vs {}/k={k}", vk.name(), other.name()), interference(vk.clone(), other.clone(), k)); b.concolic = Some(seed + 32); u.push(b);
            }
        }
    }
    // same view type, same window length, different secondary parameters alive at once
    for (a, b) in [(VK::Alma(3), VK::AlmaCustom(3, 2.0, 0.3)), (VK::AlmaCustom(4, 3.0, 0.5), VK::Alma(4)), (VK::Ema(3), VK::EmaAlpha(3, 1.0)), (VK::EmaAlpha(2, 0.5), VK::Ema(2)), (VK::LaguerreFilter(0.5), VK::LaguerreFilter(0.8)),
        (VK::Roofing(3, 2), VK::Roofing(3, 3)), (VK::Roofing(2, 3), VK::Roofing(4, 3)), (VK::Gte(0.25), VK::Gte(0.5)), (VK::Lte(0.25), VK::Lte(-1.0)), (VK::Constant(1.5), VK::Constant(2.5)),
        (VK::PFE(3, Box::new(VK::Echo)), VK::PFE(3, Box::new(VK::Ema(2)))), (VK::EFT(2, Box::new(VK::Echo)), VK::EFT(2, Box::new(VK::Ema(2)))), (VK::NET(3), VK::NET(5)), (VK::NET(5), VK::NET(3)), (VK::CTI(3), VK::CTI(5)), (VK::Min(2), VK::Min(4)), (VK::Max(4), VK::Max(2))] {
        // the second instance is created first (and stays alive), as a shared table would be built by whoever comes first
        let mut x = unit!(format!("C17/interference/{} vs {} (created first)/k=6", a.name(), b.name()), interference2(a.clone(), b.clone(), 6usize));
        x.concolic = Some(seed + 33);
        u.push(x);
    }
    // binary combinators (Add is not Clone: twin/purity only) over (Sma(2), Echo)
    // seeded two-level chains
    let pool: Vec<VK> = wrappers(2).into_iter().filter(|v| !matches!(v, VK::NET(_) | VK::EFT(..) | VK::HLNormalizer(_))).collect();
    let inner_pool: Vec<VK> = wrappers(2).into_iter().filter(|v| matches!(v, VK::Gte(_) | VK::Lte(_) | VK::Tanh | VK::Sma(_) | VK::Ema(_) | VK::Alma(_) | VK::Cumulative(_) | VK::SuperSmoother(_) | VK::LaguerreFilter(_) | VK::CyberCycle(_) | VK::Roofing(..) | VK::Min(_) | VK::Max(_))).collect();
    let mut seen = std::collections::HashSet::new();
    for _ in 0..(if q { 16 } else { 80 }) {
        let (o, i) = (pool[rng.below(pool.len())].clone(), inner_pool[rng.below(inner_pool.len())].clone());
        if o.needs_positive() || !seen.insert((o.name(), i.name())) { continue; }
        let pattern: Vec<usize> = (0..4).map(|_| rng.below(4)).collect();
        let clone_at = rng.below(4);
        u.push(unit!(format!("C17/determinism/{} over {}/k=6/clone@{clone_at}", o.name(), i.name()), determinism(o.clone(), Some(i.clone()), 6usize, pattern.clone(), clone_at)));
    }
    for x in u.iter_mut() { x.path_cap = 8000; x.branch_nl_timeout_ms = Some(400); x.budget_s = if q { 60.0 } else { 600.0 }; }
    u
}
pub fn meta() -> Meta {
    Meta {
        functions: vec!["two live instances of every view fed different streams (interference)", "every view of the crate ::{new,update,last,clone} (catalogue in engine/src/views.rs), over Echo and in seeded two-level chains"],
        bounds: "N in {2,3} (quick: N=3 only for the views with few comparisons per step), raised to the view's minimum; k = 2N+3 (<= 6 for heavily branching views); twins first polled only at steps 1, 2, 3, k/2 and k-1; clones taken after steps 0, 1, k/2, k/2+1, k/2+2 (after one and two evictions) and a VERIF_SEED-chosen step; twins polled once and then left alone for exactly 256 and 65536 updates (N=3, a stream cycling through three symbolic values, sampled path; without TrendFlex/ReFlex, and the 65536 gap without LaguerreRSI/Vst/Vsct/WelfordOnline/WelfordRolling); VERIF_SEED also chooses the pattern of extra last() calls (0..3 per step); 16 / 80 seeded two-level chains; all comparison outcomes up to 6000 paths per unit",
        outside: vec!["Add (does not implement Clone): twin and purity obligations only via C14/C01", "chains deeper than two, N > 3"],
        assumptions: vec!["term identity: identical terms are bit-identical in every float format; where two outputs are equal in the reals but not term-identical this is counted separately in the evidence (equal_in_reals_only)"],
    }
}
