//! C05 — Rsi / MyRSI equal gains/losses over the N most recent changes.
use crate::dom::*;
use crate::props::{Meta, Tier};
use crate::run::Unit;
use crate::sym::Cond;
use crate::unit;
use sliding_features::{pure_functions::Echo, sliding_windows::*, View};

/// (G, L) over the N most recent values; d_0 = 0; decided per path (same atoms as the impl's tests)
pub fn gains_losses<T: Dom>(h: &[T], n: usize) -> (T, T) {
    let mut g = T::zero();
    let mut l = T::zero();
    let lo = h.len().saturating_sub(n);
    for i in lo..h.len() {
        if i == 0 { continue; }
        let d = h[i] - h[i - 1];
        if d > T::zero() { g = g + d } else { l = l - d }
    }
    (g, l)
}
/// input streams built from a few symbolic parameters, so that ties between changes far apart (a change entering the window
/// against the one leaving it, a flat run after a reversal) are comparison branches even at windows of 10 and more
#[derive(Clone, Copy, Debug, PartialEq)]
pub enum Shape { Free, Alternating, Cycle3, Free3ThenFlat, FlatThenFree3 }
thread_local! { static SHAPE: std::cell::Cell<(Shape, usize)> = const { std::cell::Cell::new((Shape::Free, 0)) }; }
fn inp<T: Dom>(t: usize) -> T {
    let (sh, k) = SHAPE.with(|s| s.get());
    match sh {
        Shape::Free => T::input(&format!("x{t}")),
        Shape::Alternating => T::input(if t % 2 == 0 { "a" } else { "b" }),
        Shape::Cycle3 => T::input(["a", "b", "c"][t % 3]),
        Shape::Free3ThenFlat => if t < 3 { T::input(&format!("x{t}")) } else { T::input("x2") },
        Shape::FlatThenFree3 => if t + 3 < k { T::input("c") } else { T::input(&format!("x{t}")) },
    }
}
fn shaped(sh: Shape, k: usize, f: impl FnOnce()) { SHAPE.with(|s| s.set((sh, k))); f(); SHAPE.with(|s| s.set((Shape::Free, 0))); }
fn rsi_def_s<T: Dom>(n: usize, k: usize, sh: Shape) { shaped(sh, k, || rsi_def::<T>(n, k)) }
fn myrsi_def_s<T: Dom>(n: usize, k: usize, sh: Shape) { shaped(sh, k, || myrsi_def::<T>(n, k)) }
fn rsi_def<T: Dom>(n: usize, k: usize) {
    let mut v = Rsi::new(Echo::new(), n);
    let mut h: Vec<T> = vec![];
    for t in 0..k {
        let x = inp::<T>(t);
        h.push(x);
        v.update(x);
        let (g, l) = gains_losses(&h, n);
        match v.last() {
            None => T::oblige(&format!("Rsi(N={n}) t={t}: reports from the N-th value on"), Cond::Bool(t + 1 < n)),
            Some(o) => {
                T::oblige(&format!("Rsi(N={n}) t={t}: nothing before the N-th value"), Cond::Bool(t + 1 >= n));
                if l == T::zero() { T::oblige(&format!("Rsi(N={n}) t={t}: out == 100 when L == 0"), eq(o, T::c(100.0))); }
                else { T::oblige(&format!("Rsi(N={n}) t={t}: out == 100 G/(G+L) over the N most recent changes"), eq(o * (g + l), T::c(100.0) * g)); }
            }
        }
    }
}
fn myrsi_def<T: Dom>(n: usize, k: usize) {
    let mut v = MyRSI::new(Echo::new(), n);
    let mut h: Vec<T> = vec![];
    let mut held = T::zero();
    for t in 0..k {
        let x = inp::<T>(t);
        h.push(x);
        v.update(x);
        let (g, l) = gains_losses(&h, n);
        // the held value evolves from the first input on (the view computes before it reports)
        let spec = if g + l == T::zero() { held } else { (g - l) / (g + l) };
        held = spec;
        match v.last() {
            None => T::oblige(&format!("MyRSI(N={n}) t={t}: reports from the N-th value on"), Cond::Bool(t + 1 < n)),
            Some(o) => { T::oblige(&format!("MyRSI(N={n}) t={t}: nothing before the N-th value"), Cond::Bool(t + 1 >= n));
                T::oblige(&format!("MyRSI(N={n}) t={t}: out == (G-L)/(G+L) over the N most recent changes (held while G+L == 0)"), eq(o, spec)); }
        }
    }
}
/// Rsi and MyRSI over an inner view that is not the identity (a 2-point mean written here, so that C05 does not depend on the
/// crate's Sma): the definitions apply to the values the inner view delivers, not to the raw inputs
#[derive(Clone)]
struct Mean2<T> { prev: Option<T>, out: Option<T> }
impl<T: Dom> View<T> for Mean2<T> {
    fn update(&mut self, v: T) { self.out = self.prev.map(|p| (p + v) / T::c(2.0)); self.prev = Some(v); }
    fn last(&self) -> Option<T> { self.out }
}
fn over_inner<T: Dom>(n: usize, k: usize) {
    let mut r = Rsi::new(Mean2 { prev: None, out: None }, n);
    let mut m = MyRSI::new(Mean2 { prev: None, out: None }, n);
    let mut inner = Mean2 { prev: None, out: None };
    let mut h: Vec<T> = vec![];
    let mut held = T::zero();
    for t in 0..k {
        let x = inp::<T>(t);
        r.update(x); m.update(x); inner.update(x);
        let Some(y) = inner.last() else { T::oblige(&format!("Rsi/MyRSI(N={n}) over a 2-point mean t={t}: nothing while the inner view has delivered nothing"), Cond::Bool(r.last().is_none() && m.last().is_none())); continue };
        h.push(y);
        let (g, l) = gains_losses(&h, n);
        let spec = if g + l == T::zero() { held } else { (g - l) / (g + l) };
        held = spec;
        match (r.last(), m.last()) {
            (Some(a), Some(b)) => {
                if l == T::zero() { T::oblige(&format!("Rsi(N={n}) over a 2-point mean t={t}: out == 100 when L == 0"), eq(a, T::c(100.0))); }
                else { T::oblige(&format!("Rsi(N={n}) over a 2-point mean t={t}: out == 100 G/(G+L) over the inner view's N most recent changes"), eq(a * (g + l), T::c(100.0) * g)); }
                T::oblige(&format!("MyRSI(N={n}) over a 2-point mean t={t}: out == (G-L)/(G+L) over the inner view's N most recent changes"), eq(b, spec));
            }
            (None, None) => T::oblige(&format!("Rsi/MyRSI(N={n}) over a 2-point mean t={t}: report from the N-th delivered value on"), Cond::Bool(h.len() < n)),
            _ => T::oblige(&format!("Rsi/MyRSI(N={n}) over a 2-point mean t={t}: both report from the N-th delivered value on"), Cond::Bool(false)),
        }
    }
}
/// strictly rising window => 100 / +1; strictly falling => 0 / -1
fn monotone_runs<T: Dom>(n: usize, k: usize, rising: bool) {
    let mut r = Rsi::new(Echo::new(), n);
    let mut m = MyRSI::new(Echo::new(), n);
    let mut h: Vec<T> = vec![];
    for t in 0..k {
        let x = inp::<T>(t);
        h.push(x);
        r.update(x);
        m.update(x);
        // the N most recent changes all have the stated sign (assumed only over the window)
        if h.len() > n {
            let w = &h[h.len() - n - 1..];
            let strict: Vec<Cond<T>> = w.windows(2).map(|p| if rising { lt(p[0], p[1]) } else { lt(p[1], p[0]) }).collect();
            // obligation under hypothesis: (window strictly monotone) => value
            let hyp = Cond::And(strict);
            if let Some(o) = r.last() { T::oblige(&format!("Rsi(N={n}) t={t}: strictly {} window => {}", if rising { "rising" } else { "falling" }, if rising { 100 } else { 0 }), Cond::implies(hyp.clone(), eq(o, if rising { T::c(100.0) } else { T::zero() }))); }
            if let Some(o) = m.last() { T::oblige(&format!("MyRSI(N={n}) t={t}: strictly {} window => {}", if rising { "rising" } else { "falling" }, if rising { "+1" } else { "-1" }), Cond::implies(hyp, eq(o, if rising { T::one() } else { -T::one() }))); }
        }
    }
}
/// negation: Rsi(-x) = 100 - Rsi(x), MyRSI(-x) = -MyRSI(x) whenever the window is not flat
fn negation<T: Dom>(n: usize, k: usize) {
    let (mut r, mut rn) = (Rsi::new(Echo::new(), n), Rsi::new(Echo::new(), n));
    let (mut m, mut mn) = (MyRSI::new(Echo::new(), n), MyRSI::new(Echo::new(), n));
    let mut h: Vec<T> = vec![];
    for t in 0..k {
        let x = inp::<T>(t);
        h.push(x);
        r.update(x); rn.update(-x); m.update(x); mn.update(-x);
        let lo = h.len().saturating_sub(n + 1);
        let w = &h[lo..];
        let flat = Cond::And(w.windows(2).map(|p| eq(p[0], p[1])).collect());
        if let (Some(a), Some(b)) = (r.last(), rn.last()) { T::oblige(&format!("Rsi(N={n}) t={t}: Rsi(-x) == 100 - Rsi(x) unless the window is flat"), Cond::Or(vec![flat.clone(), eq(b, T::c(100.0) - a)])); }
        if let (Some(a), Some(b)) = (m.last(), mn.last()) { T::oblige(&format!("MyRSI(N={n}) t={t}: MyRSI(-x) == -MyRSI(x) unless the window is flat"), Cond::Or(vec![flat, eq(b, -a)])); }
    }
}
pub fn units(tier: Tier, seed: u64) -> Vec<Unit> {
    let ns: Vec<usize> = if tier == Tier::Quick { vec![1, 2, 3] } else { vec![1, 2, 3, 4, 5] };
    let mut u = vec![];
    for &n in &ns {
        let k = 2 * n + 3;
        u.push(unit!(format!("C05/Rsi-definition/N={n}/k={k}"), rsi_def(n, k)));
        u.push(unit!(format!("C05/MyRSI-definition/N={n}/k={k}"), myrsi_def(n, k)));
        if n <= 3 { u.push(unit!(format!("C05/over-inner-view/N={n}/k={}", k + 1), over_inner(n, k + 1))); }
        if n <= (if tier == Tier::Quick { 2 } else { 4 }) {
            u.push(unit!(format!("C05/rising/N={n}/k={k}"), monotone_runs(n, k, true)));
            u.push(unit!(format!("C05/falling/N={n}/k={k}"), monotone_runs(n, k, false)));
            u.push(unit!(format!("C05/negation/N={n}/k={k}"), negation(n, k)));
        }
    }
    let big: Vec<(usize, usize)> = if tier == Tier::Quick { vec![(8, 20), (16, 36), (2, 40), (3, 60), (33, 70), (48, 70), (63, 70), (5, 1040), (7, 8300)] } else { vec![(6, 16), (8, 20), (12, 28), (16, 36), (32, 68), (2, 40), (3, 60), (5, 100), (33, 70), (40, 70), (48, 70), (63, 70), (64, 130), (100, 110), (5, 1040), (7, 8300), (3, 66000)] };
    let first = u.len();
    for &(n, k) in &big {
        u.push(unit!(format!("C05/Rsi-definition/N={n}/k={k}/sample-path"), rsi_def(n, k)));
        u.push(unit!(format!("C05/MyRSI-definition/N={n}/k={k}/sample-path"), myrsi_def(n, k)));
        if n <= 16 { u.push(unit!(format!("C05/negation/N={n}/k={k}/sample-path"), negation(n, k.min(n + 12)))); }
    }
    for (i, x) in u.iter_mut().enumerate().skip(first) { x.concolic = Some(seed * 31 + 1 + (i as u64 % 2)); x.budget_s = 60.0; x.max_decisions = 2_000_000; }
    // windows of 10 and more, fully symbolic shaped streams (all comparison outcomes of the few parameters)
    let first = u.len();
    for &n in &(if tier == Tier::Quick { vec![10usize, 11] } else { vec![7usize, 10, 11, 13, 16] }) {
        let k = n + 8;
        for sh in [Shape::Alternating, Shape::Cycle3, Shape::Free3ThenFlat, Shape::FlatThenFree3] {
            u.push(unit!(format!("C05/Rsi-definition/N={n}/k={k}/{sh:?}"), rsi_def_s(n, k, sh)));
            u.push(unit!(format!("C05/MyRSI-definition/N={n}/k={k}/{sh:?}"), myrsi_def_s(n, k, sh)));
        }
    }
    for x in u.iter_mut().skip(first) { x.budget_s = if tier == Tier::Quick { 30.0 } else { 300.0 }; x.max_decisions = 60000; x.path_cap = 5000; }
    u
}
pub fn meta() -> Meta {
    Meta {
        functions: vec!["Rsi and MyRSI over a non-identity inner view (a harness 2-point mean), N <= 3", "Rsi::{new,update,last}", "MyRSI::{new,update,last}", "Echo::{update,last}"],
        bounds: "N in {1,2,3} (quick; corollaries to 2) / {1..5} (thorough; corollaries to 4); k = 2N+3; inputs unconstrained reals; all comparison outcomes (ties are the else-branch of `change > 0`); in addition (N,k) in {(8,20),(16,36),(2,40),(3,60)} (quick) / up to (32,68),(5,100) (thorough) along the comparison path of a pseudo-random sample input; and N in {10,11} (quick) / {7,10,11,13,16} on fully symbolic shaped streams (alternating a,b; period-3 a,b,c; three free values then flat; flat then three free values), all comparison outcomes; the definitions also at (N,k) in {(33,70),(48,70),(63,70),(5,1040),(7,8300)} (quick; the long runs cross every power of two up to 8192 with a wrapped ring buffer) / +(3,66000) / +{(40,70),(64,130),(100,110)} along a sampled comparison path",
        outside: vec!["N > 5, longer streams", "f64 rounding residue of the running sums (that is C16, not claimed)"],
        assumptions: vec![],
    }
}
