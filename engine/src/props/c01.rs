//! C01 — chaining: B(A(leaf)) is bit-identical to feeding A's outputs into a stand-alone B;
//! every raw input reaches every leaf exactly once per update; combinators report iff both children do.
use crate::dom::*;
use crate::props::{Meta, Tier};
use crate::run::Unit;
use crate::sym::Cond;
use crate::unit;
use crate::views::*;
use sliding_features::View;

pub fn warm(vk: &VK) -> usize {
    match vk {
        VK::Sma(n) | VK::Ema(n) | VK::SuperSmoother(n) | VK::Rsi(n) | VK::MyRSI(n) | VK::WelfordOnline(n) | VK::Vst(n) | VK::Vsct(n) | VK::PFE(n, _) => *n,
        VK::Roofing(n, m) => n + m + 1, VK::LnReturn => 2, VK::LaguerreRSI(_) => 3, VK::ReFlex(_) => 2, VK::NET(_) => 2, _ => 1,
    }
}
fn delivered<T: Dom>(log: &std::rc::Rc<std::cell::RefCell<Vec<T>>>, xs: &[T]) -> Cond<T> {
    let l = log.borrow();
    if l.len() != xs.len() { return Cond::Bool(false); }
    Cond::And(l.iter().zip(xs).map(|(a, b)| Cond::Ident(*a, *b)).collect())
}
/// `a` over a recording leaf; Echo is replaced by the recording leaf itself (it behaves like Echo), Constant has no leaf
fn over_tap<T: Dom>(a: &VK) -> (DynV<T>, Option<std::rc::Rc<std::cell::RefCell<Vec<T>>>>) {
    let (tap, log) = Tap::<T>::new();
    match a { VK::Echo => (DynV::new(tap), Some(log)), VK::Constant(_) => (build::<T>(a, echo()), None), _ => (build::<T>(a, DynV::new(tap)), Some(log)) }
}
fn unary<T: Dom>(b: VK, a: VK, k: usize) {
    let (inner, log) = over_tap::<T>(&a);
    let mut chain = build::<T>(&b, inner);
    let mut sa = build::<T>(&a, echo());
    let mut sb = build::<T>(&b, echo());
    let positive = a.needs_positive() || b.needs_positive();
    let mut xs = vec![];
    for t in 0..k {
        let x = T::input(&format!("x{t}"));
        if positive { T::assume(lt(T::zero(), x)); }
        xs.push(x);
        chain.update(x);
        sa.update(x);
        if let Some(v) = sa.last() { sb.update(v); }
        T::oblige(&format!("{} over {} t={t}: chain output identical to feeding stand-alone {} into stand-alone {}", b.name(), a.name(), a.name(), b.name()), opt_ident(chain.last(), sb.last()));
        if let Some(log) = &log { T::oblige(&format!("{} over {} t={t}: the leaf received every raw input exactly once, in order", b.name(), a.name()), delivered(log, &xs)); }
    }
}
/// three-level chain C(B(A(leaf))) vs the decomposition A -> B -> C over stand-alone views
fn unary3<T: Dom>(c: VK, b: VK, a: VK, k: usize) {
    let (inner, log) = over_tap::<T>(&a);
    let mut chain = build::<T>(&c, build::<T>(&b, inner));
    let (mut sa, mut sb, mut sc) = (build::<T>(&a, echo()), build::<T>(&b, echo()), build::<T>(&c, echo()));
    let positive = a.needs_positive() || b.needs_positive() || c.needs_positive();
    let name = format!("{} over {} over {}", c.name(), b.name(), a.name());
    let mut xs = vec![];
    for t in 0..k {
        let x = T::input(&format!("{}x{t}", if positive { "pos" } else { "" }));
        if positive { T::assume(lt(T::zero(), x)); }
        xs.push(x);
        chain.update(x);
        sa.update(x);
        // the statement applied twice: B is fed when A has an output; C is fed when (B over A) has an output — which, for a B that
        // answers before it has been fed anything (HLNormalizer: Some(0)), is earlier than B's first update
        if let Some(v) = sa.last() { sb.update(v); }
        if let Some(w) = sb.last() { sc.update(w); }
        T::oblige(&format!("{name} t={t}: chain output identical to the stand-alone pipeline"), opt_ident(chain.last(), sc.last()));
        if let Some(log) = &log { T::oblige(&format!("{name} t={t}: the leaf received every raw input exactly once, in order"), delivered(log, &xs)); }
    }
}
fn combine<T: Dom>(op: usize, a: VK, c: VK, outer: Option<VK>, k: usize) {
    let (in1, log1) = over_tap::<T>(&a);
    let (in2, log2) = over_tap::<T>(&c);
    let comb = binop::<T>(op, in1, in2);
    let mut chain = match &outer { Some(o) => build::<T>(o, comb), None => comb };
    let mut sa = build::<T>(&a, echo());
    let mut sc = build::<T>(&c, echo());
    let mut so = outer.as_ref().map(|o| build::<T>(o, echo()));
    let positive = a.needs_positive() || c.needs_positive();
    let name = format!("{}({}, {}){}", BINOPS[op], a.name(), c.name(), outer.as_ref().map(|o| format!(" under {}", o.name())).unwrap_or_default());
    let mut xs = vec![];
    for t in 0..k {
        let x = T::input(&format!("x{t}"));
        if positive { T::assume(lt(T::zero(), x)); }
        xs.push(x);
        sa.update(x);
        sc.update(x);
        let want = match (sa.last(), sc.last()) {
            (Some(p), Some(q)) => {
                // Divide is in-domain only for a non-zero divisor: on the comparison branch where it is zero the scenario ends here (before
                // the chain is updated: Divide asserts on its divisor inside update())
                if op == 3 && q == T::zero() { T::oblige(&format!("{name} t={t}: divisor is zero on this path (out of domain, scenario ends)"), Cond::Bool(true)); return; }
                Some(match op { 0 => p + q, 1 => p - q, 2 => p * q, _ => p / q }) }
            _ => None,
        };
        chain.update(x);
        let want = match so.as_mut() { Some(o) => { if let Some(w) = want { o.update(w); } o.last() } None => want };
        T::oblige(&format!("{name} t={t}: reports exactly when both children do, the identical value"), opt_ident(chain.last(), want));
        T::oblige(&format!("{name} t={t}: both leaves received every raw input exactly once, in order"), Cond::And(log1.iter().chain(log2.iter()).map(|l| delivered(l, &xs)).collect()));
    }
}
pub fn catalogue(n: usize) -> (Vec<VK>, Vec<VK>) {
    let w = wrappers(n);
    let mut inner = w.clone();
    inner.push(VK::Echo);
    inner.push(VK::Constant(1.5));
    (w, inner)
}
pub fn units(tier: Tier, seed: u64) -> Vec<Unit> {
    let q = tier == Tier::Quick;
    let mut rng = Rng::new(seed ^ 0xC01);
    let mut u = vec![];
    let ns: Vec<usize> = if q { vec![2] } else { vec![2, 3] };
    for &n in &ns {
        let (outer, inner) = catalogue(n);
        let mut pairs: Vec<(VK, VK)> = vec![];
        for b in &outer { for a in &inner { pairs.push((b.clone(), a.clone())); } }
        let chosen: Vec<(VK, VK)> = if q {
            // every wrapper appears at least once as outer and once as inner, the rest seed-selected
            let mut c = vec![];
            for (i, b) in outer.iter().enumerate() { c.push((b.clone(), inner[(i * 7 + seed as usize) % inner.len()].clone())); }
            for (i, a) in inner.iter().enumerate() { c.push((outer[(i * 5 + 3 + seed as usize) % outer.len()].clone(), a.clone())); }
            for _ in 0..20 { c.push(pairs[rng.below(pairs.len())].clone()); }
            c
        } else if n == 2 { pairs.clone() } else { (0..200).map(|_| pairs[rng.below(pairs.len())].clone()).collect() };
        let mut seen = std::collections::HashSet::new();
        for (b, a) in chosen {
            if !seen.insert((b.name(), a.name())) { continue; }
            let k = (warm(&a) + warm(&b) + 2).min(9);
            u.push(unit!(format!("C01/unary/{} over {}/k={k}", b.name(), a.name()), unary(b.clone(), a.clone(), k)));
        }
        // smallest windows: every wrapper at N=1 (where its constructor accepts it) over value-changing inner views
        if n == 2 {
            let small = wrappers(1);
            let inner1 = [VK::Sma(2), VK::Ema(2), VK::Cumulative(2), VK::Alma(2), VK::LaguerreFilter(0.5), VK::Gte(0.25), VK::Roc(1), VK::Min(2)];
            for (i, b) in small.iter().enumerate() {
                if outer.iter().any(|o| o.name() == b.name()) { continue; }
                let picks = if q { 2 } else { inner1.len() };
                for j in 0..picks {
                    let a = inner1[(i + j * 3 + seed as usize) % inner1.len()].clone();
                    if !seen.insert((b.name(), a.name())) { continue; }
                    let k = (warm(&a) + warm(b) + 3).min(8);
                    u.push(unit!(format!("C01/unary/{} over {}/k={k}", b.name(), a.name()), unary(b.clone(), a.clone(), k)));
                }
            }
        }
        // combinators over pairs (different warm-ups), optionally under an outer wrapper
        let simple: Vec<VK> = inner.iter().filter(|v| !matches!(v, VK::NET(_) | VK::EFT(..) | VK::HLNormalizer(_) | VK::LaguerreRSI(_))).cloned().collect();
        let ncomb = if q { 40 } else if n == 2 { 800 } else { 200 };
        let mut seen = std::collections::HashSet::new();
        let mut idx = 0usize;
        for i in 0..ncomb {
            let (op, a, c) = if false { let j = idx; idx += 1; (j % 4, simple[(j / 4) % simple.len()].clone(), simple[(j / 4 / simple.len()) % simple.len()].clone()) } else { (i % 4, simple[rng.below(simple.len())].clone(), simple[rng.below(simple.len())].clone()) };
            let outer_w = if i % 5 == 4 { Some(outer[rng.below(outer.len())].clone()) } else { None };
            if let Some(o) = &outer_w { if matches!(o, VK::NET(_) | VK::EFT(..) | VK::HLNormalizer(_) | VK::LaguerreRSI(_)) || o.needs_positive() { continue; } }
            if !seen.insert((op, a.name(), c.name(), outer_w.as_ref().map(|o| o.name()))) { continue; }
            let k = (warm(&a).max(warm(&c)) + outer_w.as_ref().map_or(0, warm) + 2).min(8);
            u.push(unit!(format!("C01/{}({}, {}){}/k={k}", BINOPS[op], a.name(), c.name(), outer_w.as_ref().map(|o| format!(" under {}", o.name())).unwrap_or_default()), combine(op, a.clone(), c.clone(), outer_w.clone(), k)));
        }
    }
    // three-level chains (and the same view type twice) over the cheaper views
    {
        let pool: Vec<VK> = wrappers(2).into_iter().filter(|v| matches!(v, VK::Gte(_) | VK::Lte(_) | VK::Tanh | VK::Sma(_) | VK::Ema(_) | VK::Alma(_) | VK::Cumulative(_) | VK::SuperSmoother(_) | VK::LaguerreFilter(_) | VK::CyberCycle(_) | VK::Roofing(..) | VK::Min(_) | VK::Max(_) | VK::Roc(_) | VK::WelfordRolling | VK::WelfordOnline(_) | VK::Vst(_) | VK::Rsi(_) | VK::MyRSI(_) | VK::CoG(_) | VK::BinaryEntropy(_) | VK::HLNormalizer(_) | VK::TrendFlex(_) | VK::ReFlex(_))).collect();
        let mut seen = std::collections::HashSet::new();
        let n3 = if q { 24 } else { 300 };
        for i in 0..n3 {
            let (c, b, a) = if i % 6 == 5 { let v = pool[rng.below(pool.len())].clone(); (v.clone(), v.clone(), v) } else { (pool[rng.below(pool.len())].clone(), pool[rng.below(pool.len())].clone(), pool[rng.below(pool.len())].clone()) };
            if !seen.insert((c.name(), b.name(), a.name())) { continue; }
            // quick tier: keep the views whose outputs are nonlinear in the input out of the two inner positions
            if q && [&a, &b].iter().any(|v| matches!(v, VK::TrendFlex(_) | VK::ReFlex(_) | VK::Vst(_) | VK::WelfordOnline(_) | VK::WelfordRolling | VK::HLNormalizer(_) | VK::Rsi(_) | VK::MyRSI(_) | VK::CoG(_))) { continue; }
            let k = (warm(&a) + warm(&b) + warm(&c) + 2).min(if q { 7 } else { 9 });
            u.push(unit!(format!("C01/unary3/{} over {} over {}/k={k}", c.name(), b.name(), a.name()), unary3(c.clone(), b.clone(), a.clone(), k)));
        }
    }
    let first_static = u.len();
    let _ = first_static;
    for x in u.iter_mut() { x.path_cap = 4000; x.budget_s = if q { 4.0 } else { 12.0 }; x.branch_nl_timeout_ms = Some(if q { 150 } else { 500 }); if q { x.path_cap = 1500; } }
    u.extend(crate::props::c01_static::units(q));
    // chains are built from arbitrary catalogue views: an inner view may leave the outer one's domain (Divide by an exact zero, LnReturn or
    // Drawdown over a non-positive inner output); such a panic ends the scenario, it says nothing about chaining (panic-freedom is C15's)
    for x in u.iter_mut() { x.panic_is_violation = false; }
    u
}
pub fn meta() -> Meta {
    Meta {
        functions: vec!["every unary wrapper of the crate (32: GTE, LTE, Tanh, Drawdown, LnReturn, WelfordRolling and the 26 sliding-window views; PFE/EFT with an identity moving average) over every inner view (those 32 over Echo, plus Echo and Constant), and Add/Subtract/Multiply/Divide over pairs, composed through Box<dyn View<Sym>>", "192 statically typed chains (nested generic types, no trait object): 12 outer views over 8 composite inner views, 6 outer views over Add/Subtract/Multiply/Divide of 4 child pairs"],
        bounds: "window length N=2 (quick) / {2,3} (thorough), raised to each view's minimum, plus every wrapper at N=1 over 2 (quick) / 8 (thorough) value-changing inner views; k = warm-up(A)+warm-up(B)+2 capped at 9; quick: 30 (thorough 300) seeded three-level chains incl. the same view three times; every wrapper at least once as outer and once as inner plus 20 VERIF_SEED-selected pairs and 40 seeded combinator pairs; thorough: all 32x34 unary pairs and 800 seeded combinator pairs at N=2, 200 seeded of each at N=3; inputs unconstrained reals (positive for Drawdown/LnReturn); all comparison outcomes up to 4000 paths / the per-unit time budget (reported when hit)",
        outside: vec!["chains deeper than three", "N > 3", "pairs not selected by the seed in the quick tier"],
        assumptions: vec!["term identity => bit-identical in every float format; equal-in-reals-only outcomes are counted separately (equal_in_reals_only)"],
    }
}
