//! C10 — linear views obey superposition; DC behaviour of the low-/high-pass members.
use crate::dom::*;
use crate::props::{Meta, Tier};
use crate::run::Unit;
use crate::sym::Cond;
use crate::unit;
use crate::views::*;
use sliding_features::{pure_functions::Echo, sliding_windows::LaguerreFilter, View};

fn superpos<T: Dom>(vk: VK, k: usize) {
    let (mut vx, mut vy, mut vz) = (build::<T>(&vk, echo()), build::<T>(&vk, echo()), build::<T>(&vk, echo()));
    let (a, b) = (T::input("a"), T::input("b"));
    for t in 0..k {
        let (x, y) = (T::input(&format!("x{t}")), T::input(&format!("y{t}")));
        vx.update(x); vy.update(y); vz.update(a * x + b * y);
        match (vx.last(), vy.last(), vz.last()) {
            (Some(p), Some(q), Some(r)) => T::oblige(&format!("{} t={t}: view(a*x+b*y) == a*view(x)+b*view(y)", vk.name()), eq(r, a * p + b * q)),
            (None, None, None) => {}
            _ => T::oblige(&format!("{} t={t}: readiness does not depend on the values", vk.name()), Cond::Bool(false)),
        }
    }
}
/// the same over a run of more than 256 updates, stated only from step `from` on (whatever a step counter gates is reached)
fn superpos_late<T: Dom>(vk: VK, k: usize, from: usize) {
    let (mut vx, mut vy, mut vz) = (build::<T>(&vk, echo()), build::<T>(&vk, echo()), build::<T>(&vk, echo()));
    let (a, b) = (T::input("a"), T::input("b"));
    for t in 0..k {
        let (x, y) = (T::input(&format!("x{t}")), T::input(&format!("y{t}")));
        vx.update(x); vy.update(y); vz.update(a * x + b * y);
        if t < from { continue; }
        match (vx.last(), vy.last(), vz.last()) {
            (Some(p), Some(q), Some(r)) => T::oblige(&format!("{} t={t}: view(a*x+b*y) == a*view(x)+b*view(y)", vk.name()), eq(r, a * p + b * q)),
            (None, None, None) => {}
            _ => T::oblige(&format!("{} t={t}: readiness does not depend on the values", vk.name()), Cond::Bool(false)),
        }
    }
}
/// the same for the recursive filters: both streams hold one symbolic level each for `from - 2` updates (so the filter states stay
/// forms in two variables), then take fresh values; stated from step `from` on
fn superpos_level<T: Dom>(vk: VK, k: usize, from: usize) {
    let (mut vx, mut vy, mut vz) = (build::<T>(&vk, echo()), build::<T>(&vk, echo()), build::<T>(&vk, echo()));
    let (a, b) = (T::input("a"), T::input("b"));
    let (lx, ly) = (T::input("levelx"), T::input("levely"));
    for t in 0..k {
        let (x, y) = if t + 2 < from { (lx, ly) } else { (T::input(&format!("x{t}")), T::input(&format!("y{t}"))) };
        vx.update(x); vy.update(y); vz.update(a * x + b * y);
        if t < from { continue; }
        match (vx.last(), vy.last(), vz.last()) {
            (Some(p), Some(q), Some(r)) => T::oblige(&format!("{} t={t}: view(a*x+b*y) == a*view(x)+b*view(y)", vk.name()), eq(r, a * p + b * q)),
            (None, None, None) => {}
            _ => T::oblige(&format!("{} t={t}: readiness does not depend on the values", vk.name()), Cond::Bool(false)),
        }
    }
}
fn superpos_gamma<T: Dom>(k: usize) {
    let g = T::input("gamma");
    T::assume(Cond::And(vec![le(T::zero(), g), lt(g, T::one())]));
    let mk = || LaguerreFilter::new(Echo::<T>::new(), g);
    let (mut vx, mut vy, mut vz) = (mk(), mk(), mk());
    let (a, b) = (T::input("a"), T::input("b"));
    for t in 0..k {
        let (x, y) = (T::input(&format!("x{t}")), T::input(&format!("y{t}")));
        vx.update(x); vy.update(y); vz.update(a * x + b * y);
        match (vx.last(), vy.last(), vz.last()) {
            (Some(p), Some(q), Some(r)) => T::oblige(&format!("LaguerreFilter(gamma symbolic in [0,1)) t={t}: superposition"), eq(r, a * p + b * q)),
            _ => T::oblige(&format!("LaguerreFilter t={t}: has values"), Cond::Bool(false)),
        }
    }
}
#[derive(Clone, Copy, Debug, PartialEq)]
enum Dc { Exact, Converges(usize), Vanishes(usize) }
fn dc<T: Dom>(vk: VK, k: usize, kind: Dc) {
    let mut v = build::<T>(&vk, echo());
    let c = T::input("c");
    let tol = T::r(1, 64);
    for t in 0..k {
        v.update(c);
        let Some(o) = v.last() else { continue };
        // |o - c| <= |c|/64  encoded without abs():  (o-c)^2 <= c^2/4096  would be nonlinear; o is linear in c, so split on the sign of c instead
        let near = |target: T| Cond::Or(vec![Cond::And(vec![le(T::zero(), c), abs_le(o - target, tol * c)]), Cond::And(vec![le(c, T::zero()), abs_le(o - target, -(tol * c))])]);
        match kind {
            Dc::Exact => T::oblige(&format!("{} t={t}: a constant stream is mapped to the same constant from the first output", vk.name()), eq(o, c)),
            Dc::Converges(from) => if t + 1 >= from { T::oblige(&format!("{} t={t}: output within |c|/64 of the constant c after {from} steps", vk.name()), near(c)); },
            Dc::Vanishes(from) => if t + 1 >= from { T::oblige(&format!("{} t={t}: a constant stream is sent to 0 (|out| <= |c|/64) after {from} steps", vk.name()), near(T::zero())); },
        }
    }
}
pub fn units(tier: Tier, _seed: u64) -> Vec<Unit> {
    let ns: Vec<usize> = if tier == Tier::Quick { vec![1, 2, 3, 4, 5, 6, 7, 8, 9, 10, 12, 16] } else { vec![1, 2, 3, 4, 5, 6, 7, 8, 9, 10, 11, 12, 13, 16, 20, 32] };
    let mut u = vec![];
    for &n in &ns {
        let k = 2 * n + 4;
        let mut lin = vec![VK::Sma(n), VK::Ema(n), VK::Alma(n), VK::Cumulative(n), VK::SuperSmoother(n)];
        if n >= 2 { lin.push(VK::Roofing(n, 2)); lin.push(VK::Roofing(n, n)); }
        if n >= 3 { lin.push(VK::CyberCycle(n)); }
        for vk in lin {
            let kk = match &vk { VK::Roofing(a, b) => a + b + 5, _ => k };
            u.push(unit!(format!("C10/superposition/{}/k={kk}", vk.name()), superpos(vk.clone(), kk)));
        }
        for vk in [VK::Sma(n), VK::Ema(n), VK::Alma(n)] { u.push(unit!(format!("C10/dc-exact/{}/k={k}", vk.name()), dc(vk.clone(), k, Dc::Exact))); }
        let far = 8 * n;
        u.push(unit!(format!("C10/dc-converges/SuperSmoother({n})/k={}", far + 2), dc(VK::SuperSmoother(n), far + 2, Dc::Converges(far))));
        if n >= 3 { u.push(unit!(format!("C10/dc-vanishes/CyberCycle({n})/k={}", far + n + 2), dc(VK::CyberCycle(n), far + n + 2, Dc::Vanishes(far + n)))); }
        if n >= 2 { u.push(unit!(format!("C10/dc-vanishes/Roofing({n},{n})/k={}", 8 * 2 * n + 2 * n + 3), dc(VK::Roofing(n, n), 8 * 2 * n + 2 * n + 3, Dc::Vanishes(8 * 2 * n + 2 * n + 1)))); }
    }
    for g in [0.0, 0.2, 0.5, 0.8, 0.95] {
        u.push(unit!(format!("C10/superposition/LaguerreFilter({g})/k=10"), superpos(VK::LaguerreFilter(g), 10usize)));
        u.push(unit!(format!("C10/dc-exact/LaguerreFilter({g})/k=10"), dc(VK::LaguerreFilter(g), 10usize, Dc::Exact)));
    }
    let first = u.len();
    for vk in [VK::Sma(3), VK::Sma(5), VK::Cumulative(3)] {
        u.push(unit!(format!("C10/superposition/{}/k=262/stated-from-254", vk.name()), superpos_late(vk.clone(), 262usize, 254usize)));
    }
    for vk in [VK::Ema(3), VK::Alma(3), VK::CyberCycle(3), VK::LaguerreFilter(0.5)] {
        u.push(unit!(format!("C10/superposition/{}/k=262/level-then-free-from-254", vk.name()), superpos_level(vk.clone(), 262usize, 254usize)));
    }
    for x in u.iter_mut().skip(first) { x.budget_s = 40.0; x.path_cap = 300; x.max_decisions = 60000; }
    u.push(unit!("C10/superposition/LaguerreFilter(gamma symbolic)/k=5", superpos_gamma(if tier == Tier::Quick { 4usize } else { 5usize })));
    u
}
pub fn meta() -> Meta {
    Meta {
        functions: vec!["Sma", "Ema", "Alma", "Cumulative", "LaguerreFilter", "SuperSmoother", "RoofingFilter", "CyberCycle — each ::{new,update,last}, three instances driven on x, y and a*x+b*y"],
        bounds: "N in {1..10,12,16} (quick) / {1..13,16,20,32} (thorough); k = 2N+4 (N+M+5 for Roofing); superposition also over 262 updates (stated from step 254 on) for Sma(3), Sma(5), Cumulative(3) on free inputs, and for Ema(3), Alma(3), CyberCycle(3), LaguerreFilter(0.5) on two symbolic levels held for 252 updates followed by free values, all comparison paths (SuperSmoother and RoofingFilter: the exact coefficients after 260 steps make the run unaffordable); a, b, c and all inputs are solver variables (any reals, including 0 and negatives); LaguerreFilter gamma in {0,.2,.5,.8,.95} and symbolic gamma in [0,1) for k<=5; DC obligations at t = 8N (+warm-up)",
        outside: vec!["f64 rounding ('up to rounding in f64')", "N > 16, longer streams", "DC convergence slower than the stated horizon"],
        assumptions: vec!["filter coefficients (exp/cos/sin of concrete arguments) are evaluated with the platform libm and enter as exact rationals"],
    }
}
