//! C08 — readiness (None during warm-up, then a finite value for ever) and documented warm-up lengths.
use crate::dom::*;
use crate::props::{Meta, Tier};
use crate::run::Unit;
use crate::sym::Cond;
use crate::unit;
use crate::views::*;
use sliding_features::View;

#[derive(Clone, Debug)]
pub enum Warm { Exactly(usize), Between(usize, usize), Unspecified }
fn finite<T: Dom>(o: T) -> bool { o.is_finite() }
fn readiness<T: Dom>(outer: VK, inner: Option<VK>, k: usize, warm: Warm) {
    let positive = outer.needs_positive() || inner.as_ref().map_or(false, |i| i.needs_positive());
    let base = match &inner { Some(i) => build::<T>(i, echo()), None => echo() };
    let mut v = build::<T>(&outer, base);
    let name = match &inner { Some(i) => format!("{} over {}", outer.name(), i.name()), None => outer.name() };
    let mut was_ready = false;
    for t in 0..k {
        let x = T::input(&format!("{}x{t}", if positive { "pos" } else { "" }));
        if positive { T::assume(lt(T::zero(), x)); }
        v.update(x);
        let o = v.last();
        if was_ready { T::oblige(&format!("{name} t={t}: readiness never reverts"), Cond::Bool(o.is_some())); }
        if let Some(val) = o {
            T::oblige(&format!("{name} t={t}: reported value is finite"), Cond::Bool(finite(val)));
            was_ready = true;
        }
        match warm {
            Warm::Exactly(w) => T::oblige(&format!("{name} t={t}: first value exactly at the {w}-th delivered value"), Cond::Bool(o.is_some() == (t + 1 >= w))),
            Warm::Between(a, b) => { if t + 1 < a { T::oblige(&format!("{name} t={t}: nothing before {a} values"), Cond::Bool(o.is_none())); } if t + 1 >= b { T::oblige(&format!("{name} t={t}: a value from {b} values on"), Cond::Bool(o.is_some())); } }
            Warm::Unspecified => {}
        }
    }
}
/// readiness and finiteness polled only at the listed steps (the other updates are silent): all comparison outcomes at window lengths
/// far beyond the small ones, and runs of thousands of updates, stay affordable because nothing is asked in between
fn readiness_sparse<T: Dom>(vk: VK, k: usize, polls: Vec<usize>, flat_tail_from: Option<usize>) {
    let positive = vk.needs_positive();
    let mut v = build::<T>(&vk, echo());
    let name = vk.name();
    let mut was_ready = false;
    let w = documented(&vk);
    let c = flat_tail_from.map(|_| { let c = T::input(if positive { "posc" } else { "c" }); if positive { T::assume(lt(T::zero(), c)); } c });
    for t in 0..k {
        let x = match (flat_tail_from, c) { (Some(f), Some(c)) if t >= f => c, _ => { let x = T::input(&format!("{}x{t}", if positive { "pos" } else { "" })); if positive { T::assume(lt(T::zero(), x)); } x } };
        v.update(x);
        if !polls.contains(&t) { continue; }
        let o = v.last();
        if was_ready { T::oblige(&format!("{name} t={t}: readiness never reverts"), Cond::Bool(o.is_some())); }
        if let Some(val) = o { T::oblige(&format!("{name} t={t}: reported value is finite"), Cond::Bool(finite(val))); was_ready = true; }
        if let Warm::Exactly(wm) = w { T::oblige(&format!("{name} t={t}: has a value iff at least {wm} values were delivered"), Cond::Bool(o.is_some() == (t + 1 >= wm))); }
    }
}
/// a wrapper whose inner view never delivers anything never changes its answer
fn silent<T: Dom>(outer: VK, k: usize) {
    let mut v = build::<T>(&outer, DynV::new(Silent));
    let first = v.last();
    for t in 0..k {
        let x = T::input(&format!("x{t}"));
        v.update(x);
        T::oblige(&format!("{} over a never-ready view t={t}: answer unchanged", outer.name()), opt_ident(v.last(), first));
    }
}
pub fn documented(vk: &VK) -> Warm {
    match vk {
        VK::Sma(n) | VK::Ema(n) | VK::SuperSmoother(n) | VK::Rsi(n) | VK::MyRSI(n) => Warm::Exactly((*n).max(1)),
        VK::Roofing(n, m) => Warm::Exactly(n + m + 1),
        VK::LnReturn => Warm::Exactly(2),
        VK::WelfordOnline(n) | VK::Vst(n) | VK::Vsct(n) => Warm::Between(n.saturating_sub(1).max(1), (*n).max(1)),
        VK::Echo | VK::Min(_) | VK::Max(_) | VK::Cumulative(_) | VK::Alma(_) | VK::CoG(_) | VK::BinaryEntropy(_) | VK::Gte(_) | VK::Lte(_) | VK::Tanh | VK::LaguerreFilter(_) => Warm::Exactly(1),
        _ => Warm::Unspecified,
    }
}
pub fn views_for(n: usize) -> Vec<VK> {
    let mut v = wrappers(n);
    v.push(VK::Echo);
    v.push(VK::PFE(n.max(3), Box::new(VK::Ema(2))));
    v.push(VK::EFT(n.max(2), Box::new(VK::Ema(2))));
    if n <= 2 { v.push(VK::EFT(2, Box::new(VK::SuperSmoother(2)))); }
    v.dedup();
    v
}
pub fn units(tier: Tier, seed: u64) -> Vec<Unit> {
    let ns: Vec<usize> = if tier == Tier::Quick { vec![1, 2, 3] } else { vec![1, 2, 3, 4, 5, 6] };
    let mut u = vec![];
    let mut seen = std::collections::HashSet::new();
    for &n in &ns {
        for vk in views_for(n) {
            if !seen.insert(vk.name()) { continue; }
            let heavy = matches!(vk, VK::NET(_) | VK::EFT(..) | VK::HLNormalizer(_) | VK::Min(_) | VK::Max(_) | VK::LaguerreRSI(_) | VK::Rsi(_));
            let wl = match &vk { VK::Roofing(a, b) => a + b + 1, _ => n };
            let k = if heavy { (wl + 3).min(8) } else { wl + n + 3 };
            let w = documented(&vk);
            u.push(unit!(format!("C08/readiness/{}/k={k}", vk.name()), readiness(vk.clone(), None, k, w.clone())));
            if n <= 2 && !vk.is_leaf() { u.push(unit!(format!("C08/silent-inner/{}/k=4", vk.name()), silent(vk.clone(), 4usize))); }
        }
    }
    // seeded two-level chains: readiness monotone + finite
    let mut rng = Rng::new(seed ^ 0xC08);
    let pool: Vec<VK> = wrappers(2).into_iter().filter(|v| !matches!(v, VK::NET(_) | VK::EFT(..) | VK::HLNormalizer(_))).collect();
    // inner views whose output is (piecewise) linear in the input, so the composed terms stay within reach of the solver
    let inner_pool: Vec<VK> = wrappers(2).into_iter().filter(|v| matches!(v, VK::Gte(_) | VK::Lte(_) | VK::Tanh | VK::Sma(_) | VK::Ema(_) | VK::Alma(_) | VK::Cumulative(_) | VK::SuperSmoother(_) | VK::LaguerreFilter(_) | VK::CyberCycle(_) | VK::Roofing(..) | VK::Min(_) | VK::Max(_))).collect();
    let nchains = if tier == Tier::Quick { 24 } else { 120 };
    let mut seen = std::collections::HashSet::new();
    for _ in 0..nchains {
        let (o, i) = (pool[rng.below(pool.len())].clone(), inner_pool[rng.below(inner_pool.len())].clone());
        if !seen.insert((o.name(), i.name())) { continue; }
        // in-domain only: a Drawdown/LnReturn outer needs a positive inner output, which only value-like inner views preserve
        if o.needs_positive() && !matches!(i, VK::Sma(_) | VK::Ema(_) | VK::Alma(_) | VK::Cumulative(_) | VK::SuperSmoother(_) | VK::LaguerreFilter(_) | VK::Gte(_)) { continue; }
        if matches!(i, VK::LnReturn | VK::Drawdown) && matches!(o, VK::LnReturn | VK::Drawdown | VK::Roc(_)) { continue; }
        u.push(unit!(format!("C08/chain/{} over {}/k=7", o.name(), i.name()), readiness(o.clone(), Some(i.clone()), 7usize, Warm::Unspecified)));
    }
    // larger windows: the documented first-output step and finiteness along the comparison path of a pseudo-random sample
    let first_big = u.len();
    for &n in &(if tier == Tier::Quick { vec![8usize, 16, 33, 64] } else { vec![7usize, 8, 12, 16, 32, 33, 64, 65, 100] }) {
        for vk in views_for(n) {
            if vk.is_leaf() { continue; }
            let wl = match &vk { VK::Roofing(a, b) => a + b + 1, _ => n };
            let k = wl + 4;
            let w = documented(&vk);
            u.push(unit!(format!("C08/readiness/{}/k={k}/sample-path", vk.name()), readiness(vk.clone(), None, k, w.clone())));
        }
    }
    for x in u.iter_mut().skip(first_big) { x.concolic = Some(seed + 11); x.max_decisions = 60000; }
    // all comparison outcomes at N = 130 and 200, polled at the last three steps only
    let first_sparse = u.len();
    for &n in &[130usize, 200] {
        for vk in views_for(n) {
            // the views whose own comparisons are linear in the inputs (a nonlinear branch condition over 130 values is beyond nlsat)
            if !matches!(vk, VK::Sma(_) | VK::Cumulative(_) | VK::CoG(_) | VK::Roc(_) | VK::Alma(_) | VK::Ema(_) | VK::SuperSmoother(_) | VK::CyberCycle(_) | VK::BinaryEntropy(_) | VK::Min(_) | VK::Max(_)) { continue; }
            let wl = n;
            let k = wl + 3;
            u.push(unit!(format!("C08/readiness/{}/k={k}/polled-at-the-end", vk.name()), readiness_sparse(vk.clone(), k, vec![k - 3, k - 2, k - 1], None)));
        }
    }
    // thousands of updates: three free values, then one repeated value; polled around every power of two from 256 on
    for vk in views_for(3) {
        if vk.is_leaf() || matches!(vk, VK::TrendFlex(_) | VK::ReFlex(_) | VK::NET(_) | VK::EFT(..) | VK::LaguerreRSI(_) | VK::WelfordRolling | VK::WelfordOnline(_) | VK::Vst(_) | VK::Vsct(_)) { continue; }
        let k = 8300usize;
        let mut polls: Vec<usize> = vec![];
        let mut p = 256usize; while p < k { for d in 0..4 { polls.push(p - 2 + d); } p *= 2; }
        polls.extend([k - 2, k - 1]);
        u.push(unit!(format!("C08/readiness/{}/k={k}/flat-tail", vk.name()), readiness_sparse(vk.clone(), k, polls.clone(), Some(3usize))));
    }
    for x in u.iter_mut().skip(first_sparse) { x.max_decisions = 400000; }
    for x in u.iter_mut() { x.panic_is_violation = true; x.path_cap = 6000; x.branch_nl_timeout_ms = Some(1000); x.budget_s = if tier == Tier::Quick { 60.0 } else { 600.0 }; }
    for x in u.iter_mut().skip(first_sparse) { x.path_cap = 300; x.budget_s = 25.0; }
    u
}
pub fn meta() -> Meta {
    Meta {
        functions: vec!["every view of the crate ::{new,update,last} (catalogue in engine/src/views.rs), over Echo, over a never-ready leaf, and in seeded two-level chains"],
        bounds: "N in {1,2,3} (quick) / {1..6} (thorough), raised to the view's minimum (CTI/NET/PFE/CyberCycle/TrendFlex/ReFlex 3, EFT/LaguerreRSI/Roofing 2); k = 2N+3 (N+3 capped at 8 for heavily branching views); inputs unconstrained reals, positive for Drawdown/LnReturn; 24 (quick) / 120 (thorough) VERIF_SEED-selected two-level chains at N=2, k=7; all comparison outcomes up to a cap of 6000 paths per unit (reported if hit); in addition every view at N in {8,16,33,64} (quick) / {7,8,12,16,32,33,64,65,100}, k=N+4, along the comparison path of a pseudo-random sample; all comparison paths (up to 300) at N in {130,200}, k=N+3, polled at the last three steps, for Sma, Cumulative, CoG, Roc, Alma, Ema, SuperSmoother, CyberCycle, BinaryEntropy, Min, Max; and runs of 8300 updates at N=3 (three free values, then one repeated symbolic value), polled around every power of two from 256, for every view but TrendFlex, ReFlex, NET, EFT, LaguerreRSI and the Welford family",
        outside: vec!["overflow to ±Inf in f64 from large magnitudes", "streams longer than k ('for ever' is argued from the monotone structure, not checked)", "chains deeper than two"],
        assumptions: vec!["a crate panic (including its own finiteness debug_assert!) on a feasible path counts as a violation of 'returns a finite value'", "division by a symbolic zero yields the IEEE special (NaN/±Inf), which is then what `is_finite` sees"],
    }
}
