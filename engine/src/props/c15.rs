//! C15 — no panic: every constructed view accepts every finite in-domain stream, with debug assertions and
//! overflow checks enabled (this binary's dev profile) as well as disabled (the release pass).
use crate::dom::*;
use crate::props::{Meta, Tier};
use crate::run::Unit;
use crate::sym::Cond;
use crate::unit;
use crate::views::*;
use sliding_features::View;

#[derive(Clone, Copy, Debug, PartialEq)]
pub enum Shape { Free, Constant, Increasing, Alternating, Decreasing }
/// every unary wrapper at exactly window length n (no raising to the "meaningful" minimum: the constructor accepts it)
pub fn raw_wrappers(n: usize) -> Vec<VK> {
    vec![VK::Gte(0.25), VK::Lte(0.25), VK::Tanh, VK::Drawdown, VK::LnReturn, VK::WelfordRolling,
        VK::Sma(n), VK::Ema(n), VK::Alma(n), VK::Cumulative(n), VK::Min(n), VK::Max(n), VK::WelfordOnline(n), VK::Vst(n), VK::Vsct(n),
        VK::HLNormalizer(n), VK::Roc(n), VK::BinaryEntropy(n), VK::Rsi(n), VK::MyRSI(n), VK::CoG(n), VK::CTI(n), VK::NET(n),
        VK::PFE(n, Box::new(VK::Echo)), VK::PFE(n, Box::new(VK::Ema(n))), VK::EFT(n, Box::new(VK::Echo)), VK::EFT(n, Box::new(VK::Ema(n))),
        VK::LaguerreFilter(0.5), VK::LaguerreRSI(n), VK::SuperSmoother(n), VK::Roofing(n, n), VK::Roofing(n, 1), VK::CyberCycle(n), VK::TrendFlex(n), VK::ReFlex(n), VK::Echo, VK::Constant(1.5)]
}
fn stream<T: Dom>(shape: Shape, k: usize, positive: bool) -> Vec<T> {
    // inputs that must be positive carry the name prefix "pos" (the concolic sampler honours it)
    let p = if positive { "pos" } else { "" };
    let pos = |x: T| { if positive { T::assume(lt(T::zero(), x)); } x };
    match shape {
        Shape::Free => (0..k).map(|t| pos(T::input(&format!("{p}x{t}")))).collect(),
        Shape::Constant => { let c = pos(T::input(&format!("{p}c"))); vec![c; k] }
        Shape::Alternating => { let (a, b) = (pos(T::input(&format!("{p}a"))), pos(T::input(&format!("{p}b")))); (0..k).map(|t| if t % 2 == 0 { a } else { b }).collect() }
        Shape::Decreasing => { let mut x = pos(T::input(&format!("{p}x0"))); let mut v = vec![x]; for t in 1..k { let d = T::input(&format!("posd{t}")); T::assume(lt(T::zero(), d)); x = if positive { x / (T::one() + d) } else { x - d }; v.push(x); } v }
        Shape::Increasing => { let mut x = pos(T::input(&format!("{p}x0"))); let mut v = vec![x]; for t in 1..k { let d = T::input(&format!("posd{t}")); T::assume(lt(T::zero(), d)); x = x + d; v.push(x); } v }
    }
}
fn no_panic<T: Dom>(outer: VK, inner: Option<VK>, k: usize, shape: Shape, last_pattern: Vec<usize>) {
    let positive = outer.needs_positive() || inner.as_ref().map_or(false, |i| i.needs_positive());
    // a constructor that rejects the window length (assert!) is not a violation: C15 is about the lengths it accepts
    let built = std::panic::catch_unwind(std::panic::AssertUnwindSafe(|| { let base = match &inner { Some(i) => build::<T>(i, echo()), None => echo() }; build::<T>(&outer, base) }));
    let Ok(mut v) = built else { T::oblige(&format!("{}: the constructor rejects this window length (nothing to run)", outer.name()), Cond::Bool(true)); return };
    let xs = stream::<T>(shape, k, positive);
    let _ = v.last();
    for (t, x) in xs.iter().enumerate() {
        v.update(*x);
        for _ in 0..last_pattern[t % last_pattern.len()] { let _ = v.last(); }
    }
    let _ = v.last();
    // reaching this point on a path means no panic on that path (a panic is reported by the explorer with a witness)
    T::oblige(&format!("{}{}: completed {k} updates without panicking", outer.name(), inner.as_ref().map(|i| format!(" over {}", i.name())).unwrap_or_default()), Cond::Bool(true));
}
fn divide<T: Dom>(k: usize) {
    // Divide(Sma(2), Echo): divisor assumed non-zero (in-domain)
    let mut v = binop::<T>(3, build::<T>(&VK::Sma(2), echo()), echo());
    for t in 0..k { let x = T::input(&format!("x{t}")); T::assume(Cond::Ne(x, T::zero())); v.update(x); let _ = v.last(); }
    let mut a = binop::<T>(0, build::<T>(&VK::Ema(2), echo()), build::<T>(&VK::Min(2), echo()));
    let mut m = binop::<T>(2, build::<T>(&VK::Rsi(2), echo()), build::<T>(&VK::Constant(2.0), echo()));
    let mut s = binop::<T>(1, echo(), build::<T>(&VK::Cumulative(1), echo()));
    for t in 0..k { let x = T::input(&format!("y{t}")); a.update(x); m.update(x); s.update(x); let _ = (a.last(), m.last(), s.last()); }
    T::oblige("Add/Subtract/Multiply/Divide: completed without panicking", Cond::Bool(true));
}
pub fn units(tier: Tier, seed: u64) -> Vec<Unit> {
    let q = tier == Tier::Quick;
    let mut rng = Rng::new(seed ^ 0xC15);
    let mut u: Vec<Unit> = vec![];
    let mut seen = std::collections::HashSet::new();
    let small: Vec<usize> = if q { vec![1, 2, 3] } else { vec![1, 2, 3, 4, 5] };
    for &n in &small {
        for vk in raw_wrappers(n) {
            if !seen.insert(vk.name()) { continue; }
            let heavy = matches!(vk, VK::NET(_) | VK::EFT(..) | VK::HLNormalizer(_) | VK::LaguerreRSI(_) | VK::Min(_) | VK::Max(_) | VK::Rsi(_));
            let wl = match &vk { VK::Roofing(a, b) => a + b + 1, _ => n };
            let k = if heavy { (wl + 3).min(7) } else { 2 * wl + 3 };
            let pattern: Vec<usize> = (0..3).map(|_| rng.below(3)).collect();
            u.push(unit!(format!("C15/{}/free/k={k}", vk.name()), no_panic(vk.clone(), None, k, Shape::Free, pattern.clone())));
        }
    }
    // large windows: constant / strictly increasing / alternating streams (ties, monotone runs) and generic sample paths
    let large: Vec<usize> = if q { vec![8, 64] } else { vec![8, 16, 32, 64] };
    for &n in &large {
        for vk in raw_wrappers(n) {
            if vk.is_leaf() || matches!(vk, VK::Gte(_) | VK::Lte(_) | VK::Tanh | VK::Drawdown | VK::LnReturn | VK::WelfordRolling | VK::LaguerreFilter(_)) && n != 8 { continue; }
            let wl = match &vk { VK::Roofing(a, b) => a + b + 1, _ => n };
            let k = if matches!(vk, VK::NET(_)) && n > 16 { wl + 2 } else { (2 * wl + 3).min(wl + 40) };
            // large windows: one comparison path per (shape, sample): decisions are taken on a pseudo-random sample of the
            // shape's symbolic parameters (concolic), so no comparison tree has to be solved; a panic on that path is a violation
            for shape in [Shape::Constant, Shape::Increasing, Shape::Decreasing, Shape::Alternating, Shape::Free] {
                for s in 0..(if q { 1u64 } else { 3u64 }) {
                    let pattern: Vec<usize> = (0..3).map(|_| rng.below(3)).collect();
                    let mut c = unit!(format!("C15/{}/{shape:?}/sample-path#{s}/k={k}", vk.name()), no_panic(vk.clone(), None, k, shape, pattern.clone()));
                    c.concolic = Some(seed * 7 + s + 1);
                    u.push(c);
                }
            }
        }
    }
    // every other window length up to 17 and the power-of-two neighbourhoods: free and strictly increasing streams along sampled paths
    for &n in &(if q { vec![4usize, 5, 6, 7, 9, 10, 12, 16, 17, 31, 32, 33] } else { vec![4usize, 5, 6, 7, 9, 10, 11, 12, 13, 14, 15, 17, 31, 33, 63, 65, 100, 128] }) {
        for vk in raw_wrappers(n) {
            if vk.is_leaf() || matches!(vk, VK::Gte(_) | VK::Lte(_) | VK::Tanh | VK::Drawdown | VK::LnReturn | VK::WelfordRolling | VK::LaguerreFilter(_)) { continue; }
            let wl = match &vk { VK::Roofing(a, b) => a + b + 1, _ => n };
            let k = if matches!(vk, VK::NET(_)) && n > 16 { wl + 2 } else { (2 * wl + 3).min(wl + 24) };
            for shape in [Shape::Free, Shape::Increasing, Shape::Decreasing] {
                let mut c = unit!(format!("C15/{}/{shape:?}/sample-path/k={k}", vk.name()), no_panic(vk.clone(), None, k, shape, vec![1usize, 0, 2]));
                c.concolic = Some(seed * 7 + 5);
                u.push(c);
            }
        }
    }
    // more than two thousand updates at the smallest windows, strictly increasing and strictly decreasing (the value leaving the window
    // is its extreme at every step; counters that are rebased or wrap every 2^k updates are crossed up to 2048)
    for &n in &[1usize, 3] {
        for vk in raw_wrappers(n) {
            if vk.is_leaf() || matches!(vk, VK::TrendFlex(_) | VK::ReFlex(_) | VK::LaguerreRSI(_) | VK::NET(_) | VK::EFT(..) | VK::WelfordRolling | VK::WelfordOnline(_) | VK::Vst(_) | VK::Vsct(_) | VK::CTI(_) | VK::PFE(..)) { continue; }
            if n == 3 && !matches!(vk, VK::Min(_) | VK::Max(_) | VK::Sma(_) | VK::Cumulative(_) | VK::Roc(_) | VK::BinaryEntropy(_) | VK::Alma(_) | VK::Ema(_)) { continue; }
            for shape in [Shape::Increasing, Shape::Decreasing] {
                let mut c = unit!(format!("C15/{}/{shape:?}/sample-path/k=2100", vk.name()), no_panic(vk.clone(), None, 2100usize, shape, vec![0usize, 0, 1]));
                c.concolic = Some(seed * 7 + 9);
                u.push(c);
            }
        }
    }
    // seeded two-level chains at N=2 and N=1
    let pool: Vec<VK> = raw_wrappers(2).into_iter().chain(raw_wrappers(1)).filter(|v| !matches!(v, VK::NET(_) | VK::EFT(..) | VK::HLNormalizer(_)) && !v.is_leaf()).collect();
    let inner_pool: Vec<VK> = raw_wrappers(2).into_iter().filter(|v| matches!(v, VK::Gte(_) | VK::Lte(_) | VK::Tanh | VK::Sma(_) | VK::Ema(_) | VK::Alma(_) | VK::Cumulative(_) | VK::SuperSmoother(_) | VK::LaguerreFilter(_) | VK::CyberCycle(_) | VK::Roofing(..) | VK::Min(_) | VK::Max(_) | VK::Roc(_) | VK::BinaryEntropy(_))).collect();
    let mut seen = std::collections::HashSet::new();
    for _ in 0..(if q { 30 } else { 150 }) {
        let (o, i) = (pool[rng.below(pool.len())].clone(), inner_pool[rng.below(inner_pool.len())].clone());
        if o.needs_positive() && !matches!(i, VK::Sma(_) | VK::Ema(_) | VK::Alma(_) | VK::Cumulative(_) | VK::Gte(_) | VK::Min(_) | VK::Max(_)) { continue; }
        if !seen.insert((o.name(), i.name())) { continue; }
        let pattern: Vec<usize> = (0..3).map(|_| rng.below(3)).collect();
        u.push(unit!(format!("C15/{} over {}/free/k=6", o.name(), i.name()), no_panic(o.clone(), Some(i.clone()), 6usize, Shape::Free, pattern.clone())));
    }
    u.push(unit!("C15/combinators/k=5", divide(5usize)));
    for x in u.iter_mut() { x.panic_is_violation = true; x.path_cap = if q { 3000 } else { 20000 }; x.budget_s = if q { 20.0 } else { 300.0 }; x.branch_nl_timeout_ms = Some(300); x.max_decisions = 60000; }
    u
}
pub fn meta() -> Meta {
    Meta {
        functions: vec!["every view of the crate ::{new,update,last} at exactly the requested window length (PFE and EFT with identity and Ema averages, Roofing(N,N) and (N,1)), seeded two-level chains, the four combinators"],
        bounds: "fully symbolic inputs, all comparison outcomes: N in {1,2,3} (quick) / {1..5} (thorough), k = 2N+3 (<= 7 for heavily branching views); N in {8,64} (quick) / {8,16,32,64}, and free / increasing streams at every N in {4,5,6,7,9,10,12,16,17,31,32,33} (quick; thorough up to 128): streams that are constant, strictly increasing (symbolic positive increments), alternating between two symbolic values, or free, each along the comparison path of 1 (quick) / 3 (thorough) pseudo-random samples of the symbolic parameters (concolic: the verdict covers every input following that path), k = 2N+3 (capped at N+40); last() called 0..2 times between updates in a VERIF_SEED-chosen pattern; 30 / 150 seeded two-level chains at N in {1,2}; positive inputs for Drawdown/LnReturn, non-zero divisor for Divide; this binary is built with debug assertions and overflow checks ON, and the same units are re-run by the release build (both OFF, wrapping usize); strictly decreasing streams added to every sampled-path list; runs of 2100 updates, strictly increasing and strictly decreasing, at N=1 (every view but the nonlinear ones) and N=3 (Min, Max, Sma, Cumulative, Roc, BinaryEntropy, Alma, Ema)",
        outside: vec!["window lengths above 64 and between the listed ones", "f64-specific panics (the crate's finiteness debug_assert! firing on rounding residue, overflow to Inf): see kani/ (engine K)", "chains deeper than two"],
        assumptions: vec!["inputs are reals (finite by construction); a division by a value that can be exactly zero yields the IEEE special, so the crate's own is_finite() assertions see it"],
    }
}
