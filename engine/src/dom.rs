//! `Dom`: the scalar domains a harness can be run at. Every harness (scenario + oracle +
//! obligations) is written once, generically over `T: Dom`, and instantiated at
//!   * `Sym`  – symbolic execution of the real crate code, obligations decided by the solver;
//!   * `f64`  – native replay of a solver model against the very same harness (dev and release).
use crate::sym::{self, Cond, Sym};
use num::{BigRational, NumCast};
use std::cell::RefCell;
use std::collections::HashMap;

pub trait Dom: num::Float + std::fmt::Debug + Send + 'static {
    const SYMBOLIC: bool;
    /// a fresh input (symbolic variable / the model's value for that name on replay)
    fn input(name: &str) -> Self;
    fn assume(c: Cond<Self>);
    fn oblige(label: &str, c: Cond<Self>);
    fn note(s: String);
    /// exact f64 literal
    fn c(x: f64) -> Self { <Self as NumCast>::from(x).expect("literal") }
    fn u(n: usize) -> Self { <Self as NumCast>::from(n).expect("usize") }
    /// exact rational literal n/d
    fn r(n: i64, d: i64) -> Self;
    fn term_id(self) -> u64;
    /// if the value is structurally `num / sqrt(rad)` (a term the real code built), its two parts
    fn ratio_sqrt_parts(self) -> Option<(Self, Self)> { None }
    /// `a == b` as an auxiliary fact, available only when the engine establishes it as a polynomial identity (None otherwise)
    fn lemma_eq(_a: Self, _b: Self) -> Option<Cond<Self>> { None }
    /// alternative formulations, the general one last (see Ctx::oblige_alt); natively only the general one is evaluated
    fn oblige_alt(label: &str, mut alts: Vec<Cond<Self>>) { let g = alts.pop().expect("formulation"); Self::oblige(label, g) }
    /// an input assumed to lie in [-1,1]
    fn input_unit(name: &str) -> Self { let x = Self::input(name); Self::assume(Cond::And(vec![Cond::Le(x, Self::one()), Cond::Le(-Self::one(), x)])); x }
    /// |x| <= bound, for x a linear form over `input_unit` variables (see Ctx::oblige_abs_le_boxed)
    fn oblige_abs_le_boxed(label: &str, x: Self, bound: f64) { Self::oblige(label, Cond::And(vec![Cond::Le(x, Self::c(bound)), Cond::Le(-Self::c(bound), x)])) }
    /// top-level structure of the term the real code built: ('+'|'-'|'*'|'/', left, right); None natively
    fn bin_parts(self) -> Option<(char, Self, Self)> { None }
    /// if the value is structurally `sqrt(rad)`, the radicand
    fn sqrt_part(self) -> Option<Self> { None }
    /// if the value is structurally `num / den`, its two parts
    fn ratio_parts(self) -> Option<(Self, Self)> { None }
}

impl Dom for Sym {
    const SYMBOLIC: bool = true;
    fn input(name: &str) -> Sym {
        sym::with(|c| {
            c.n_inputs += 1;
            if c.mode == sym::Mode::Exact {
                // inputs the model does not mention are unconstrained by the query: 0, or 1 for inputs assumed positive ("pos…")
                let v = c.exact_inputs.get(name).cloned().unwrap_or_else(|| if name.starts_with("pos") && !num::Signed::is_positive(&c.exact_default) { BigRational::from_integer(1.into()) } else { c.exact_default.clone() });
                Sym(c.mk(sym::Node::Const(v)))
            } else { Sym(c.var(name)) }
        })
    }
    fn assume(c: Cond<Sym>) { sym::with(|x| x.assume(c)) }
    fn oblige(label: &str, c: Cond<Sym>) { sym::with(|x| x.oblige(label, c)) }
    fn note(s: String) { sym::with(|x| if x.stats.events.len() < 64 { x.stats.events.push(s) }) }
    fn r(n: i64, d: i64) -> Sym { sym::cst(BigRational::new(n.into(), d.into())) }
    fn term_id(self) -> u64 { self.0 as u64 }
    fn ratio_sqrt_parts(self) -> Option<(Sym, Sym)> {
        if let sym::Node::Div(a, b) = sym::node_of(self) { if let sym::Node::Sqrt(c) = sym::node_of(Sym(b)) { return Some((Sym(a), Sym(c))); } }
        // exact replay: every term is a constant; fall back to the recorded operands (see Ctx::div_parts)
        if let Some((a, b)) = sym::exact_div_parts(self) { if let Some(c) = sym::exact_sqrt_arg(b) { return Some((a, c)); } }
        None
    }
    fn input_unit(name: &str) -> Sym {
        let x = Sym::input(name);
        if sym::with(|c| c.mode == sym::Mode::Symbolic) { sym::with(|c| c.declare_unit_box(x.0)); }
        else { let one = <Sym as num::One>::one(); Sym::assume(Cond::And(vec![Cond::Le(x, one), Cond::Le(-one, x)])); }
        x
    }
    fn lemma_eq(a: Sym, b: Sym) -> Option<Cond<Sym>> { sym::with(|c| c.lemma_eq(a, b)) }
    fn oblige_alt(label: &str, alts: Vec<Cond<Sym>>) { sym::with(|c| c.oblige_alt(label, alts)) }
    fn oblige_abs_le_boxed(label: &str, x: Sym, bound: f64) { sym::with(|c| c.oblige_abs_le_boxed(label, x, sym::f64_rat(bound))) }
    fn bin_parts(self) -> Option<(char, Sym, Sym)> {
        match sym::node_of(self) { sym::Node::Add(a, b) => Some(('+', Sym(a), Sym(b))), sym::Node::Sub(a, b) => Some(('-', Sym(a), Sym(b))), sym::Node::Mul(a, b) => Some(('*', Sym(a), Sym(b))), sym::Node::Div(a, b) => Some(('/', Sym(a), Sym(b))), _ => None }
    }
    fn sqrt_part(self) -> Option<Sym> { if let sym::Node::Sqrt(c) = sym::node_of(self) { Some(Sym(c)) } else { sym::exact_sqrt_arg(self) } }
    fn ratio_parts(self) -> Option<(Sym, Sym)> { if let sym::Node::Div(a, b) = sym::node_of(self) { Some((Sym(a), Sym(b))) } else { sym::exact_div_parts(self) } }
}

#[derive(Default)]
pub struct NativeCtx {
    pub inputs: HashMap<String, f64>,
    pub failed: Vec<(String, String)>,
    pub assumption_failed: Vec<String>,
    pub obligations: u64,
    /// value of inputs the model does not mention
    pub default: f64,
    /// Some(seed): inputs not listed are pseudo-random samples derived from the name and this seed (native sample runs)
    pub sample_seed: Option<u64>,
    /// relative tolerance of the native evaluation (0 = the default 1e-7)
    pub tol: f64,
    /// the inputs actually handed out (for reporting)
    pub used: Vec<(String, f64)>,
}
pub fn sample_value(name: &str, seed: u64) -> f64 {
    let mut h: u64 = seed ^ 0x9E3779B97F4A7C15;
    for b in name.bytes() { h = (h ^ b as u64).wrapping_mul(0x100000001B3); h ^= h >> 29; }
    h = h.wrapping_mul(0xD6E8FEB86659FD93); h ^= h >> 32;
    let u = (h >> 11) as f64 / (1u64 << 53) as f64;
    // a coarse grid (multiples of 1/8 in [0.25, 2]) so that ties between inputs occur
    let mag = 0.25 + (u * 14.0).floor() / 8.0;
    // occasionally a zero of either sign (IEEE detail that only the native runs can see)
    if !name.starts_with("pos") && (h >> 3) % 16 == 0 { return if h & 1 == 1 { 0.0 } else { -0.0 }; }
    if h & 1 == 1 || name.starts_with("pos") { mag } else { -mag }
}
thread_local! { pub static NATIVE: RefCell<NativeCtx> = RefCell::new(NativeCtx::default()); }

const TOL: f64 = 1e-7;
fn scale(a: f64, b: f64) -> f64 { let t = NATIVE.with(|n| n.borrow().tol); (if t > 0.0 { t } else { TOL }) * 1.0f64.max(a.abs()).max(b.abs()) }
/// could `c` hold, allowing for rounding?  (loose)      strict = holds with a margin
fn eval(c: &Cond<f64>, strict: bool) -> bool {
    let s = |a: f64, b: f64| if strict { -scale(a, b) } else { scale(a, b) };
    match c {
        Cond::Lt(a, b) => a - b < s(*a, *b),
        Cond::Le(a, b) => a - b <= s(*a, *b),
        Cond::Eq(a, b) => if a == b { true } else if strict { false } else { (a - b).abs() <= scale(*a, *b) },
        Cond::Ne(a, b) => if strict { (a - b).abs() > scale(*a, *b) } else { a != b },
        Cond::Ident(a, b) => a.to_bits() == b.to_bits(),
        Cond::Lemma(a, b) => if strict { a == b } else { (a - b).abs() <= scale(*a, *b) * 10.0 },
        Cond::And(v) => v.iter().all(|x| eval(x, strict)),
        Cond::Or(v) => v.iter().any(|x| eval(x, strict)),
        Cond::Not(x) => !eval(x, !strict),
        Cond::Bool(b) => *b,
    }
}
impl Dom for f64 {
    const SYMBOLIC: bool = false;
    fn input(name: &str) -> f64 { NATIVE.with(|n| { let mut n = n.borrow_mut(); let v = match (n.inputs.get(name).copied(), n.sample_seed) { (Some(v), _) => v, (None, Some(s)) => sample_value(name, s), (None, None) => if name.starts_with("pos") && n.default <= 0.0 { 1.0 } else { n.default } }; if n.sample_seed.is_some() && !n.used.iter().any(|(k, _)| k == name) { n.used.push((name.to_string(), v)); } v }) }
    fn assume(c: Cond<f64>) { if !eval(&c, false) { NATIVE.with(|n| n.borrow_mut().assumption_failed.push(format!("{:?}", c))); } }
    fn oblige(label: &str, c: Cond<f64>) {
        NATIVE.with(|n| n.borrow_mut().obligations += 1);
        if !eval(&c, false) { NATIVE.with(|n| n.borrow_mut().failed.push((label.to_string(), short(format!("{:?}", c))))); }
    }
    fn note(_: String) {}
    fn r(n: i64, d: i64) -> f64 { n as f64 / d as f64 }
    fn term_id(self) -> u64 { self.to_bits() }
}
fn short(s: String) -> String { if s.len() > 400 { format!("{}…", &s[..400]) } else { s } }

// ---- small generic helpers for harness code ---------------------------------------------
pub fn inputs<T: Dom>(prefix: &str, k: usize) -> Vec<T> { (0..k).map(|i| T::input(&format!("{}{}", prefix, i))).collect() }
pub fn sum<T: Dom>(v: &[T]) -> T { v.iter().fold(T::zero(), |a, b| a + *b) }
pub fn window<T>(h: &[T], n: usize) -> &[T] { &h[h.len().saturating_sub(n)..] }
pub fn eq<T: Dom>(a: T, b: T) -> Cond<T> { Cond::Eq(a, b) }
pub fn le<T: Dom>(a: T, b: T) -> Cond<T> { Cond::Le(a, b) }
pub fn lt<T: Dom>(a: T, b: T) -> Cond<T> { Cond::Lt(a, b) }
/// q == k*p for two outputs that may be structurally num/sqrt(rad) (k = +1, -1 or a positive scale `a` whose square is `k2`):
/// first the sufficient polynomial condition on the parts (num_q == k num_p, rad_q == k^2 rad_p ... for k = +-1: rad equal), then the general one
pub fn rel_alts<T: Dom>(q: T, p: T, k: T, general: Cond<T>, out_scales: bool) -> Vec<Cond<T>> {
    let mut v = vec![];
    if let (Some((nq, rq)), Some((np, rp))) = (q.ratio_sqrt_parts(), p.ratio_sqrt_parts()) {
        // out_scales = false: q == sign(k) * p expected when inputs are scaled by |k| (num scales by k, radicand by k^2)
        if out_scales { v.push(Cond::And(vec![Cond::Eq(nq, k * np), Cond::Eq(rq, rp)])); } else { v.push(Cond::And(vec![Cond::Eq(nq, k * np), Cond::Eq(rq, k * k * rp)])); }
    }
    v.push(general);
    v
}
pub fn opt_eq<T: Dom>(a: Option<T>, b: Option<T>) -> Cond<T> { match (a, b) { (None, None) => Cond::Bool(true), (Some(x), Some(y)) => Cond::Eq(x, y), _ => Cond::Bool(false) } }
pub fn opt_ident<T: Dom>(a: Option<T>, b: Option<T>) -> Cond<T> { match (a, b) { (None, None) => Cond::Bool(true), (Some(x), Some(y)) => Cond::Ident(x, y), _ => Cond::Bool(false) } }
/// |a - b| <= tol
pub fn close<T: Dom>(a: T, b: T, tol: T) -> Cond<T> { Cond::And(vec![Cond::Le(a - b, tol), Cond::Le(b - a, tol)]) }
/// |x| <= b
pub fn abs_le<T: Dom>(x: T, b: T) -> Cond<T> { Cond::And(vec![Cond::Le(x, b), Cond::Le(-b, x)]) }
/// x is the minimum of w: x <= all and x in w
pub fn is_min<T: Dom>(x: T, w: &[T]) -> Cond<T> { Cond::And(vec![Cond::And(w.iter().map(|y| Cond::Le(x, *y)).collect()), Cond::Or(w.iter().map(|y| Cond::Eq(x, *y)).collect())]) }
pub fn is_max<T: Dom>(x: T, w: &[T]) -> Cond<T> { Cond::And(vec![Cond::And(w.iter().map(|y| Cond::Le(*y, x)).collect()), Cond::Or(w.iter().map(|y| Cond::Eq(x, *y)).collect())]) }

// ---- W64: the same native evaluation as f64, through a distinct scalar type (see w64.rs) -----------------------------------
use crate::w64::W64;
fn unwrap_cond(c: &Cond<W64>) -> Cond<f64> {
    match c {
        Cond::Lt(a, b) => Cond::Lt(a.0, b.0), Cond::Le(a, b) => Cond::Le(a.0, b.0), Cond::Eq(a, b) => Cond::Eq(a.0, b.0), Cond::Ne(a, b) => Cond::Ne(a.0, b.0),
        Cond::Ident(a, b) => Cond::Ident(a.0, b.0), Cond::Lemma(a, b) => Cond::Lemma(a.0, b.0),
        Cond::And(v) => Cond::And(v.iter().map(unwrap_cond).collect()), Cond::Or(v) => Cond::Or(v.iter().map(unwrap_cond).collect()),
        Cond::Not(x) => Cond::Not(Box::new(unwrap_cond(x))), Cond::Bool(b) => Cond::Bool(*b),
    }
}
impl Dom for W64 {
    const SYMBOLIC: bool = false;
    fn input(name: &str) -> W64 { W64(<f64 as Dom>::input(name)) }
    fn assume(c: Cond<W64>) { <f64 as Dom>::assume(unwrap_cond(&c)) }
    fn oblige(label: &str, c: Cond<W64>) { <f64 as Dom>::oblige(label, unwrap_cond(&c)) }
    fn note(_: String) {}
    fn r(n: i64, d: i64) -> W64 { W64(n as f64 / d as f64) }
    fn term_id(self) -> u64 { self.0.to_bits() }
}
