//! symcheck — solver-based checking of sliding_features' real generic code (engine R).
//!   symcheck <Cxx> [--tier quick|thorough] [--seed N] [--only SUBSTR] [--threads N] [-v]
//!   symcheck replay <file>
//!   symcheck selftest
mod alloc;
mod dom;
mod json;
mod props;
mod run;
mod sym;
mod views;
mod w64;

#[global_allocator]
static GLOBAL: alloc::Counting = alloc::Counting;

use json::J;
use props::Tier;
use run::{Config, KnownFinding, UnitReport};
use std::time::Instant;

fn arg(args: &[String], name: &str) -> Option<String> { args.iter().position(|a| a == name).and_then(|i| args.get(i + 1).cloned()) }

fn load_known(path: &str) -> Vec<KnownFinding> {
    let Ok(s) = std::fs::read_to_string(path) else { return vec![] };
    let Ok(j) = json::parse(&s) else { eprintln!("warning: cannot parse {}", path); return vec![] };
    let mut out = vec![];
    if let Some(a) = j.get("findings").and_then(|x| x.as_arr()) {
        for f in a {
            let g = |k: &str| f.get(k).and_then(|x| x.as_str()).unwrap_or("").to_string();
            out.push(KnownFinding { property: g("property"), unit_prefix: g("unit_prefix"), label_prefix: g("label_prefix"), what: g("what") });
        }
    }
    out
}

fn main() {
    let args: Vec<String> = std::env::args().skip(1).collect();
    if args.is_empty() { eprintln!("usage: symcheck <Cxx>|replay <file>|selftest [--tier quick|thorough] [--seed N]"); std::process::exit(2); }
    run::install_panic_hook();
    let verif = std::env::var("VERIF_DIR").unwrap_or_else(|_| "/verif".into());
    let tier = match arg(&args, "--tier").or_else(|| std::env::var("VERIF_TIER").ok()).as_deref() { Some("thorough") => Tier::Thorough, _ => Tier::Quick };
    let seed: u64 = arg(&args, "--seed").or_else(|| std::env::var("VERIF_SEED").ok()).and_then(|s| s.parse().ok()).unwrap_or(0);
    let threads: usize = arg(&args, "--threads").and_then(|s| s.parse().ok()).unwrap_or_else(|| std::thread::available_parallelism().map(|n| n.get()).unwrap_or(4));
    let timeout_ms: u64 = arg(&args, "--timeout-ms").and_then(|s| s.parse().ok()).unwrap_or(if tier == Tier::Quick { 10000 } else { 30000 });
    let verbose = args.iter().any(|a| a == "-v");
    match args[0].as_str() {
        "replay" => { std::process::exit(replay_file(&args[1], timeout_ms)); }
        "selftest" => { std::process::exit(selftest(seed)); }
        p => {
            let Some((mut units, meta)) = props::units(p, tier, seed) else { eprintln!("unknown property {}", p); std::process::exit(2) };
            if let Some(only) = arg(&args, "--only") { units.retain(|u| u.id.contains(&only)); }
            if args.iter().any(|a| a == "--list") { for u in &units { println!("{}", u.id); } return; }
            let crosscheck_every: u64 = arg(&args, "--crosscheck").or_else(|| std::env::var("VERIF_CROSSCHECK").ok()).and_then(|s| s.parse().ok()).unwrap_or(if tier == Tier::Thorough { 400 } else { 0 });
            let cfg = Config { crosscheck_every, threads, timeout_ms, replay_dir: format!("{}/replays", verif), property: p.to_string(), known: load_known(&format!("{}/known_findings.json", verif)), verbose };
            if !args.iter().any(|a| a == "--keep-replays") { let _ = std::fs::remove_dir_all(format!("{}/{}", cfg.replay_dir, p)); }
            let t0 = Instant::now();
            let n_units = units.len();
            // Differential guard on the compiled code (see DESIGN §2.3): every unit is run natively on 3 sampled inputs at f64 and at the
            // newtype float W64, in this build profile and (subprocess) in the release profile. The verdict per obligation label must be the
            // same in all four runs: the solver analysed the *generic* code in *this* profile, and a label that fails only at f64, or only in
            // one profile, is a deviation the symbolic instantiation cannot see. Labels failing everywhere (f64 rounding residue, known
            // findings) are not reported here: they are the explorer's business, in exact arithmetic.
            let native_only = args.iter().any(|a| a == "--native-only");
            const NS: u64 = 3;
            let mut native_runs = 0u64;
            // (unit index, sample) -> failing labels at f64 / at W64, and the inputs used
            let mut nat: Vec<Option<(Vec<(String, String)>, Vec<(String, String)>, Vec<(String, f64)>)>> = vec![];
            for u in &units { for s in 0..NS { native_runs += 2; let sd = seed * 1000 + s + 1;
                let a = run::native_sample(u, sd, false); let b = run::native_sample(u, sd, true);
                nat.push(match (a, b) { (Some((fa, inp)), Some((fb, _))) => Some((fa, fb, inp)), _ => None });
            } }
            if native_only {
                for (i, e) in nat.iter().enumerate() { if let Some((fa, _, _)) = e { if !fa.is_empty() { println!("NATIVE-FAIL {} {}", i, J::arr_s(fa.iter().map(|(l, _)| l.clone())).pretty().replace('\n', " ")); } } }
                println!("NATIVE-DONE {} {}", nat.len(), run::profile());
                std::process::exit(0);
            }
            let mut native_code = 0;
            let mut native_div: Vec<(String, String, String, String, Vec<(String, f64)>)> = vec![]; // unit, label, what, detail, inputs
            for (i, e) in nat.iter().enumerate() { if let Some((fa, fb, inp)) = e {
                let uid = &units[i / NS as usize].id;
                for (l, d) in fa { if !fb.iter().any(|(m, _)| m == l) { native_div.push((uid.clone(), l.clone(), format!("fails at f64 but holds for the same code at the newtype float W64 ({} profile): the crate treats the concrete type f64 specially", run::profile()), d.clone(), inp.clone())); } }
                for (l, d) in fb { if !fa.iter().any(|(m, _)| m == l) { native_div.push((uid.clone(), l.clone(), format!("fails at the newtype float W64 but holds at f64 ({} profile): the crate treats the concrete type f64 specially", run::profile()), d.clone(), inp.clone())); } }
            } }
            let mut release_native: Option<bool> = None;
            if cfg!(debug_assertions) && !args.iter().any(|a| a == "--no-release-native") {
                let exe = format!("{}/engine/target-rel/release/symcheck", verif);
                let mut cmd = std::process::Command::new(&exe);
                cmd.args([p, "--tier", if tier == Tier::Quick { "quick" } else { "thorough" }, "--seed", &seed.to_string(), "--native-only", "--no-evidence", "--keep-replays"]);
                if let Some(only) = arg(&args, "--only") { cmd.args(["--only", &only]); }
                match cmd.output() {
                    Ok(out) => {
                        let text = String::from_utf8_lossy(&out.stdout).to_string();
                        let done = text.lines().any(|l| l == format!("NATIVE-DONE {} release", nat.len()));
                        if !done { println!("UNDECIDED the release build of the harness did not complete its native sample runs (exit {:?})", out.status.code()); native_code = 2; }
                        else {
                            release_native = Some(true); native_runs += nat.len() as u64;
                            let mut rel: std::collections::HashMap<usize, Vec<String>> = Default::default();
                            for l in text.lines() { if let Some(r) = l.strip_prefix("NATIVE-FAIL ") { let (i, js) = r.split_once(' ').unwrap(); if let Ok(j) = json::parse(js) { rel.insert(i.parse().unwrap(), j.as_arr().map(|v| v.iter().filter_map(|x| x.as_str().map(|s| s.to_string())).collect()).unwrap_or_default()); } } }
                            for (i, e) in nat.iter().enumerate() { if let Some((fa, _, inp)) = e {
                                let uid = &units[i / NS as usize].id; let empty = vec![]; let fr = rel.get(&i).unwrap_or(&empty);
                                // a panic in the dev build (debug_assert!, overflow check) that the release build does not have is the documented difference
                                // between the profiles, not a divergence: the dev run stopped there, so nothing after it is comparable either
                                if fa.iter().any(|(l, _)| l.starts_with("panic")) { continue; }
                                for (l, d) in fa { if !fr.contains(l) { native_div.push((uid.clone(), l.clone(), "fails in the dev profile (debug assertions, overflow checks) but holds in the release profile on the same f64 inputs".into(), d.clone(), inp.clone())); } }
                                for l in fr { if !fa.iter().any(|(m, _)| m == l) { native_div.push((uid.clone(), l.clone(), "fails in the release profile but holds in the dev profile on the same f64 inputs".into(), "re-run with `check replay` to see the release values".into(), inp.clone())); } }
                            } }
                        }
                    }
                    Err(e) => { println!("UNDECIDED cannot run the release build of the harness ({}): {}", exe, e); native_code = 2; }
                }
            }
            let mut seen_units: Vec<String> = vec![];
            for (i, (uid, label, what, detail, inp)) in native_div.iter().enumerate() {
                if seen_units.contains(uid) { continue; } seen_units.push(uid.clone());
                let dir = format!("{}/{}", cfg.replay_dir, p); let _ = std::fs::create_dir_all(&dir);
                let path = format!("{}/native-divergence-{}.json", dir, i);
                let j = J::obj(vec![("property", J::s(p)), ("unit", J::s(uid.clone())), ("kind", J::s(if label.starts_with("panic") { "panic" } else { "obligation" })), ("label", J::s(label.clone())), ("detail", J::s(format!("{}; {}", what, detail))),
                    ("inputs", J::Obj(inp.iter().map(|(k, v)| (k.clone(), J::obj(vec![("exact", J::s(sym::f64_rat(*v).to_string())), ("f64", J::Num(*v))]))).collect())), ("found_by", J::s("differential native run of the compiled code (f64 vs newtype float, dev vs release) on a sampled input; not a solver verdict")),
                    ("how_to_replay", J::s(format!("/verif/bin/check replay {}", path)))]);
                let _ = std::fs::write(&path, j.pretty());
                println!("VIOLATION property={} replay={}", p, path);
                println!("  unit:   {}\n  what:   {} — {}\n  inputs: {}\n  native: {}", uid, label, what, inp.iter().map(|(k, x)| format!("{}={}", k, x)).collect::<Vec<_>>().join(" "), detail);
                native_code = 1;
            }
            let native_summary = J::obj(vec![("runs", J::Int(native_runs as i64)), ("samples_per_unit", J::Int(NS as i64)), ("instantiations", J::arr_s(["f64".to_string(), "W64 (newtype around f64)".to_string()])), ("profiles", J::arr_s(if release_native.is_some() { vec!["dev".to_string(), "release".to_string()] } else { vec![run::profile().to_string()] })), ("divergent_units", J::Int(seen_units.len() as i64))]);
            let reports = run::explore_all(units, &cfg);
            let wall = t0.elapsed().as_secs_f64();
            // C15: the same units once more in the release build (debug assertions and overflow checks OFF, wrapping usize)
            let mut second: Option<J> = None;
            let mut second_code = 0;
            if p == "C15" && cfg!(debug_assertions) && !args.iter().any(|a| a == "--no-release-pass") {
                let exe = format!("{}/engine/target-rel/release/symcheck", verif);
                let mut cmd = std::process::Command::new(&exe);
                cmd.args([p, "--tier", if tier == Tier::Quick { "quick" } else { "thorough" }, "--seed", &seed.to_string(), "--no-evidence", "--keep-replays", "--summary-json"]);
                if let Some(only) = arg(&args, "--only") { cmd.args(["--only", &only]); }
                match cmd.output() {
                    Ok(out) => {
                        let text = String::from_utf8_lossy(&out.stdout).to_string();
                        for l in text.lines() { if l.starts_with("VIOLATION") || l.starts_with("KNOWN-FINDING") || l.starts_with("  ") || l.starts_with("UNDECIDED") { println!("{}", l.replace("UNDECIDED", "UNDECIDED[release]")); } }
                        second_code = out.status.code().unwrap_or(2);
                        second = text.lines().find(|l| l.starts_with("SUMMARY-JSON ")).and_then(|l| json::parse(&l[13..]).ok());
                        if second.is_none() { println!("UNDECIDED release pass produced no summary (exit {})", second_code); second_code = second_code.max(2); }
                    }
                    Err(e) => { println!("UNDECIDED cannot run the release build of the harness ({}): {}", exe, e); second_code = 2; }
                }
            }
            let code = report(p, tier, seed, &reports, &meta, wall, &verif, n_units, args.iter().any(|a| a == "--no-evidence"), verbose, second, args.iter().any(|a| a == "--summary-json"), native_summary);
            let code = if code == 1 || second_code == 1 || native_code == 1 { 1 } else { code.max(second_code).max(native_code) };
            std::process::exit(code);
        }
    }
}

fn replay_file(path: &str, timeout_ms: u64) -> i32 {
    let s = std::fs::read_to_string(path).expect("replay file");
    let j = json::parse(&s).expect("replay json");
    let prop = j.get("property").and_then(|x| x.as_str()).unwrap();
    let uid = j.get("unit").and_then(|x| x.as_str()).unwrap();
    let label = j.get("label").and_then(|x| x.as_str()).unwrap();
    let kind = j.get("kind").and_then(|x| x.as_str()).unwrap();
    let mut model = vec![];
    if let Some(J::Obj(m)) = j.get("inputs") {
        for (k, v) in m {
            let ex = v.get("exact").and_then(|x| x.as_str()).unwrap();
            let r: num::BigRational = ex.parse().expect("rational");
            model.push((k.clone(), r));
        }
    }
    let mut found = None;
    for tier in [Tier::Quick, Tier::Thorough] {
        if let Some((units, _)) = props::units(prop, tier, 0) { if let Some(u) = units.into_iter().find(|u| u.id == uid) { found = Some(u); break; } }
    }
    let Some(unit) = found else { eprintln!("unit {} not found", uid); return 2 };
    let v = sym::Violation { label: label.into(), kind: kind.into(), decisions: vec![], model, model_raw: String::new(), smt: String::new(), detail: String::new() };
    let r = run::replay(&unit, &v, timeout_ms);
    println!("replay {} [{} profile]\n  unit:  {}\n  label: {}\n  exact rational replay: reproduces={} — {}\n  native f64 replay:     reproduces={} — {}", path, run::profile(), uid, label, r.exact_reproduces, r.exact_detail, r.native_reproduces, r.native_detail);
    if r.exact_reproduces || r.native_reproduces { 1 } else { 0 }
}

fn report(p: &str, tier: Tier, seed: u64, reports: &[UnitReport], meta: &props::Meta, wall: f64, verif: &str, n_units: usize, no_evidence: bool, verbose: bool, second_pass: Option<J>, summary_json: bool, native_summary: J) -> i32 {
    let sum = |f: &dyn Fn(&UnitReport) -> u64| reports.iter().map(|r| f(r)).sum::<u64>();
    let paths = sum(&|r| r.paths);
    let queries = sum(&|r| r.queries);
    let mut violations = 0;
    let mut known = 0;
    let mut inconclusive: Vec<String> = vec![];
    for r in reports {
        for f in &r.findings {
            match &f.known {
                Some(what) => { known += 1; println!("KNOWN-FINDING: property={} {} [{} :: {}]", p, what, r.id, f.v.label); }
                None => { violations += 1; println!("VIOLATION property={} replay={}", p, f.replay_file);
                    println!("  unit:   {}\n  what:   {}\n  inputs: {}\n  exact:  {}\n  native: {}", r.id, f.v.label, f.v.model.iter().map(|(k, x)| format!("{}={}", k, x)).collect::<Vec<_>>().join(" "), f.replay.exact_detail, f.replay.native_detail); }
            }
        }
        for i in &r.inconclusive { inconclusive.push(format!("{}: solver could not decide: {}", r.id, i)); }
        for i in &r.unconfirmed { inconclusive.push(format!("{}: {}", r.id, i)); }
        for i in &r.aborted { inconclusive.push(format!("{}: path abandoned: {}", r.id, i)); }
        // vacuity guard: a unit none of whose paths reached an obligation (all pruned by assumptions, or cut by the budget before the first one) decides nothing
        if r.obligations == 0 && r.findings.is_empty() && !r.capped { inconclusive.push(format!("{}: vacuous — no path reached an obligation ({} paths, {} pruned by assumptions)", r.id, r.paths, r.paths_pruned)); }
    }
    let exhaustive = reports.iter().all(|r| !r.capped && !r.stopped_on_violation && r.aborted.is_empty());
    let mut samples: Vec<J> = vec![];
    for r in reports.iter().filter(|r| !r.sample_obligations.is_empty()).take(3) {
        samples.push(J::obj(vec![("unit", J::s(r.id.clone())), ("obligation_smt2", J::s(r.sample_obligations[0].clone())), ("paths", J::arr_s(r.sample_paths.iter().cloned()))]));
    }
    if samples.is_empty() { for r in reports.iter().take(3) { samples.push(J::obj(vec![("unit", J::s(r.id.clone())), ("paths", J::arr_s(r.sample_paths.iter().cloned()))])); } }
    let units_j: Vec<J> = reports.iter().map(|r| J::obj(vec![
        ("unit", J::s(r.id.clone())), ("paths", J::Int(r.paths as i64)), ("paths_panicked", J::Int(r.paths_panicked as i64)), ("paths_pruned_by_assumption", J::Int(r.paths_pruned as i64)),
        ("max_decisions_on_a_path", J::Int(r.max_path_len as i64)),
        ("queries", J::Int(r.queries as i64)), ("nonlinear_queries", J::Int(r.n_nl as i64)), ("unknown", J::Int(r.n_unknown as i64)),
        ("obligations", J::Int(r.obligations as i64)), ("discharged", J::Int(r.discharged as i64)), ("discharged_by_term_identity", J::Int(r.discharged_ident as i64)), ("equal_in_reals_only", J::Int(r.real_equal_only as i64)),
        ("path_cap_hit", J::Bool(r.capped)), ("violations", J::Int(r.findings.len() as i64)), ("solver_s", J::Num((r.solver_secs * 1000.0).round() / 1000.0)), ("wall_s", J::Num((r.wall * 1000.0).round() / 1000.0)),
        ("events", J::arr_s(r.events.iter().cloned())), ("panics_seen", J::arr_s(r.panic_msgs.iter().cloned())),
    ])).collect();
    let findings_j: Vec<J> = reports.iter().flat_map(|r| r.findings.iter().map(|f| J::obj(vec![("unit", J::s(r.id.clone())), ("label", J::s(f.v.label.clone())), ("known_finding", match &f.known { Some(k) => J::s(k.clone()), None => J::Null }), ("replay", J::s(f.replay_file.clone())), ("inputs", run::model_json(&f.v.model)), ("exact_replay", J::s(f.replay.exact_detail.clone())), ("native_replay", J::s(f.replay.native_detail.clone()))]))).collect();
    let ev = J::obj(vec![
        ("property_id", J::s(p)), ("tier", J::s(if tier == Tier::Quick { "quick" } else { "thorough" })), ("seed", J::Int(seed as i64)), ("level", J::s("model_checking")),
        ("coverage", J::obj(vec![
            ("states", J::Int(paths as i64)), ("transitions", J::Int(queries as i64)),
            ("traces_validated_against_impl", J::Int(sum(&|r| r.native_replays) as i64)),
            ("samples", J::Arr(samples)),
            ("exhaustive", J::Bool(exhaustive)),
            ("explanation", J::s("states = feasible paths of the real code's comparison tree explored symbolically (each path covers every real-valued input satisfying its path condition); transitions = SMT queries discharged by z3 (branch feasibility + obligations; comparisons and equalities that the engine's exact linear / polynomial normal forms decide outright never reach the solver and are counted separately as atoms_decided_by_normal_form); exhaustive = every feasible path within the stated bounds was explored (no path cap hit, no unit cut short)")),
            ("engine", J::s("engine R: the crate's real generic View<T> code instantiated at T = Sym (term-building scalar), recompiled from /repo's working tree for this run; z3 over a pipe decides")),
            ("functions_encoded", J::arr_s(meta.functions.iter().map(|s| s.to_string()))),
            ("bounds", J::s(meta.bounds)), ("outside_the_bounds", J::arr_s(meta.outside.iter().map(|s| s.to_string()))),
            ("units", J::Int(n_units as i64)), ("obligations", J::Int(sum(&|r| r.obligations) as i64)), ("discharged", J::Int(sum(&|r| r.discharged) as i64)),
            ("discharged_by_term_identity", J::Int(sum(&|r| r.discharged_ident) as i64)), ("equal_in_reals_only", J::Int(sum(&|r| r.real_equal_only) as i64)),
            ("cvc5_cross_check", J::obj(vec![("obligation_queries_re_asked", J::Int(sum(&|r| r.cc_asked) as i64)), ("agreed", J::Int(sum(&|r| r.cc_agreed) as i64)), ("cvc5_no_answer_in_3s", J::Int(sum(&|r| r.cc_noanswer) as i64)), ("disagreements", J::arr_s(reports.iter().flat_map(|r| r.cc_disagree.iter().cloned())))])),
            ("atoms_decided_by_normal_form", J::Int(sum(&|r| r.normal_form_decisions) as i64)),
            ("undecided", J::arr_s(inconclusive.iter().cloned())),
            ("queries_sat", J::Int(sum(&|r| r.n_sat) as i64)), ("queries_unsat", J::Int(sum(&|r| r.n_unsat) as i64)), ("queries_unknown", J::Int(sum(&|r| r.n_unknown) as i64)), ("queries_nonlinear", J::Int(sum(&|r| r.n_nl) as i64)),
            ("solver_time_s", J::Num((reports.iter().map(|r| r.solver_secs).sum::<f64>() * 100.0).round() / 100.0)),
            ("solver", J::s("z3 (-in -smt2), QF_LRA incremental core for linear cones, (check-sat-using (or-else (try-for qfnra-nlsat T) (try-for smt T))) for nonlinear cones")),
            ("paths_ending_in_a_crate_panic", J::Int(sum(&|r| r.paths_panicked) as i64)),
            ("known_findings_reported", J::Int(known)),
            ("findings", J::Arr(findings_j)),
            ("per_unit", J::Arr(units_j)),
        ])),
        ("assumptions", J::arr_s(meta.assumptions.iter().map(|s| s.to_string()).chain(["arithmetic is over the reals (exact), not IEEE: rounding, overflow to ±Inf, -0.0 and subnormals are outside every verdict of this engine".to_string(), "trusted: rustc, z3 4.8.12, the Sym shim (validated by `symcheck selftest` against native f64), the spec oracles in engine/src/props".to_string()]))),
        ("wall_s", J::Num((wall * 100.0).round() / 100.0)),
        ("violations", J::Int(violations)),
    ]);
    let mut ev = ev;
    if let Some(J::Obj(cov)) = ev.get("coverage").cloned().as_ref() { let mut c = J::Obj(cov.clone()); c.set("native_differential_guard", native_summary); ev.set("coverage", c); }
    if let Some(sp) = second_pass { if let Some(J::Obj(cov)) = ev.get("coverage").cloned().as_ref() { let mut c = J::Obj(cov.clone()); c.set("release_profile_pass", sp); ev.set("coverage", c); } }
    if summary_json {
        println!("SUMMARY-JSON {}", J::obj(vec![("profile", J::s(run::profile())), ("units", J::Int(n_units as i64)), ("paths", J::Int(paths as i64)), ("queries", J::Int(queries as i64)), ("paths_ending_in_a_crate_panic", J::Int(sum(&|r| r.paths_panicked) as i64)), ("violations", J::Int(violations)), ("undecided", J::Int(inconclusive.len() as i64)), ("wall_s", J::Num((wall * 100.0).round() / 100.0))]).pretty().replace('\n', " "));
    }
    if !no_evidence {
        let _ = std::fs::create_dir_all(format!("{}/evidence", verif));
        std::fs::write(format!("{}/evidence/{}.json", verif, p), ev.pretty()).expect("write evidence");
    }
    println!("{} [{}] units={} paths={} queries={} obligations={} discharged={} violations={} known={} undecided={} exhaustive={} wall={:.1}s",
        p, if tier == Tier::Quick { "quick" } else { "thorough" }, n_units, paths, queries, sum(&|r| r.obligations), sum(&|r| r.discharged), violations, known, inconclusive.len(), exhaustive, wall);
    if verbose { for r in reports { println!("  {:50} paths={:6} q={:7} ob={:6} viol={} unk={} wall={:.1}s {}", r.id, r.paths, r.queries, r.obligations, r.findings.len(), r.n_unknown, r.wall, if r.capped { "CAPPED" } else { "" }); } }
    if violations > 0 { return 1; }
    if !inconclusive.is_empty() { for i in inconclusive.iter().take(10) { println!("UNDECIDED {}", i); } return 2; }
    0
}

#[allow(dead_code)]
mod test_data { include!("/repo/src/test_data.rs"); }
/// Engine self-validation (Serval-style): every view of the catalogue is run natively at f64 and at `Sym` with constant
/// inputs (exact rational execution of the same real code through the shim) on the crate's own TEST_DATA and on a seeded
/// random stream; readiness must agree exactly and values to 1e-6 of their scale (native f64 cancellation noise reaches 1e-9). Validates the Float shim, not the crate.
fn selftest(seed: u64) -> i32 {
    use sliding_features::View;
    use views::{build, echo, VK};
    let mut streams: Vec<(String, Vec<f64>)> = vec![("TEST_DATA".into(), test_data::TEST_DATA.iter().copied().take(96).collect())];
    let mut rng = views::Rng::new(seed ^ 0x5E1F);
    streams.push(("seeded random with ties and zeros".into(), (0..96).map(|i| { let r = rng.below(2001) as f64 / 100.0 - 10.0; if i % 7 == 3 { 0.0 } else if i % 5 == 4 { (r / 4.0).round() } else { r } }).collect()));
    streams.push(("positive".into(), (0..96).map(|_| 0.5 + rng.below(1000) as f64 / 100.0).collect()));
    let mut cat: Vec<VK> = vec![];
    for n in [1usize, 2, 3, 5, 8] { for v in props::c15::raw_wrappers(n) { if !cat.iter().any(|c| c.name() == v.name()) { cat.push(v); } } }
    let (mut compared, mut views_run, mut bad) = (0u64, 0u64, 0u64);
    for vk in &cat {
        for (sname, xs) in &streams {
            if vk.needs_positive() && sname != "positive" { continue; }
            let nat = std::panic::catch_unwind(std::panic::AssertUnwindSafe(|| { let mut v = build::<f64>(vk, echo()); xs.iter().map(|x| { v.update(*x); v.last() }).collect::<Vec<_>>() }));
            let mut ctx = sym::Ctx::new(5000);
            ctx.mode = sym::Mode::Exact;
            ctx.begin_path(vec![]);
            sym::CTX.with(|c| *c.borrow_mut() = Some(ctx));
            let symr = std::panic::catch_unwind(std::panic::AssertUnwindSafe(|| { let mut v = build::<sym::Sym>(vk, echo()); xs.iter().map(|x| { v.update(sym::cf(*x)); v.last().map(|o| num::ToPrimitive::to_f64(&o).unwrap_or(f64::NAN)) }).collect::<Vec<_>>() }));
            sym::CTX.with(|c| *c.borrow_mut() = None);
            views_run += 1;
            match (nat, symr) {
                (Ok(a), Ok(b)) => for (t, (p, q)) in a.iter().zip(b.iter()).enumerate() {
                    compared += 1;
                    let ok = match (p, q) { (None, None) => true, (Some(x), Some(y)) => (x - y).abs() <= 1e-6 * 1.0f64.max(x.abs()).max(y.abs()) || (x.is_nan() && y.is_nan()), _ => false };
                    if !ok { bad += 1; if bad <= 10 { println!("SELFTEST MISMATCH {} on {} step {}: native {:?} vs Sym-exact {:?}", vk.name(), sname, t, p, q); } }
                },
                (Err(_), Err(_)) => {} // both reject (e.g. constructor assertion, or the same panic)
                (a, b) => { bad += 1; println!("SELFTEST MISMATCH {} on {}: native panicked={} Sym-exact panicked={}", vk.name(), sname, a.is_err(), b.is_err()); }
            }
        }
    }
    println!("selftest: {} view/stream runs, {} step comparisons, {} mismatches", views_run, compared, bad);
    if bad > 0 { 1 } else { 0 }
}
