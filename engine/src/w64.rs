//! `W64`: a newtype around f64 implementing `num::Float` by delegation. Same arithmetic, same size, different type: running a
//! harness at f64 and at W64 on the same inputs must give the same verdict on every obligation, unless the crate special-cases
//! the concrete type f64 (TypeId / size-based fast paths), which the solver-side instantiation at `Sym` cannot see.
use num::{Num, NumCast, One, ToPrimitive, Zero};
#[derive(Clone, Copy, Debug, PartialEq, PartialOrd, Default)]
pub struct W64(pub f64);
macro_rules! binop { ($tr:ident, $m:ident, $op:tt) => { impl std::ops::$tr for W64 { type Output = W64; fn $m(self, o: W64) -> W64 { W64(self.0 $op o.0) } } } }
binop!(Add, add, +); binop!(Sub, sub, -); binop!(Mul, mul, *); binop!(Div, div, /); binop!(Rem, rem, %);
impl std::ops::Neg for W64 { type Output = W64; fn neg(self) -> W64 { W64(-self.0) } }
impl Zero for W64 { fn zero() -> W64 { W64(0.0) } fn is_zero(&self) -> bool { self.0 == 0.0 } }
impl One for W64 { fn one() -> W64 { W64(1.0) } }
impl Num for W64 { type FromStrRadixErr = num::traits::ParseFloatError; fn from_str_radix(s: &str, r: u32) -> Result<W64, Self::FromStrRadixErr> { f64::from_str_radix(s, r).map(W64) } }
impl ToPrimitive for W64 { fn to_i64(&self) -> Option<i64> { self.0.to_i64() } fn to_u64(&self) -> Option<u64> { self.0.to_u64() } fn to_f64(&self) -> Option<f64> { Some(self.0) } }
impl NumCast for W64 { fn from<N: ToPrimitive>(n: N) -> Option<W64> { n.to_f64().map(W64) } }
macro_rules! un { ($($m:ident),*) => { $( fn $m(self) -> W64 { W64(self.0.$m()) } )* } }
macro_rules! cst { ($($m:ident),*) => { $( fn $m() -> W64 { W64(<f64 as num::Float>::$m()) } )* } }
macro_rules! pred { ($($m:ident),*) => { $( fn $m(self) -> bool { self.0.$m() } )* } }
impl num::Float for W64 {
    cst!(nan, infinity, neg_infinity, neg_zero, min_value, min_positive_value, max_value, epsilon);
    pred!(is_nan, is_infinite, is_finite, is_normal, is_sign_positive, is_sign_negative);
    un!(floor, ceil, round, trunc, fract, abs, signum, recip, sqrt, exp, exp2, ln, log2, log10, cbrt, sin, cos, tan, asin, acos, atan, exp_m1, ln_1p, sinh, cosh, tanh, asinh, acosh, atanh);
    fn classify(self) -> std::num::FpCategory { self.0.classify() }
    fn mul_add(self, a: W64, b: W64) -> W64 { W64(self.0.mul_add(a.0, b.0)) }
    fn powi(self, n: i32) -> W64 { W64(self.0.powi(n)) }
    fn powf(self, n: W64) -> W64 { W64(self.0.powf(n.0)) }
    fn log(self, b: W64) -> W64 { W64(self.0.log(b.0)) }
    fn max(self, o: W64) -> W64 { W64(self.0.max(o.0)) }
    fn min(self, o: W64) -> W64 { W64(self.0.min(o.0)) }
    fn abs_sub(self, o: W64) -> W64 { W64((self.0 - o.0).max(0.0)) }
    fn hypot(self, o: W64) -> W64 { W64(self.0.hypot(o.0)) }
    fn atan2(self, o: W64) -> W64 { W64(self.0.atan2(o.0)) }
    fn sin_cos(self) -> (W64, W64) { let (s, c) = self.0.sin_cos(); (W64(s), W64(c)) }
    fn integer_decode(self) -> (u64, i16, i8) { num::Float::integer_decode(self.0) }
}
