//! Exploration driver: units (view × parameters × obligation family) are explored path by path
//! (DFS by re-execution with a decision prefix), fanned over worker threads, each with its own
//! z3 process. Solver models are replayed (exact rationals, then native f64) before anything is
//! reported as a violation.
use crate::dom::{NativeCtx, NATIVE};
use crate::json::J;
use crate::sym::{self, Ctx, EngineAbort, Mode, Sat, Violation, CTX};
use num::BigRational;
use std::collections::HashMap;
use std::sync::{Arc, Condvar, Mutex};
use std::time::Instant;

pub type Body = Box<dyn Fn() + Send + Sync>;
pub struct Unit {
    pub id: String,
    pub sym: Body,
    pub nat: Body,
    /// the same harness at the newtype float W64 (same arithmetic as f64, different type)
    pub alt: Body,
    pub path_cap: usize,
    /// C15/C08: a crate panic on a feasible path is itself the violation
    pub panic_is_violation: bool,
    pub max_decisions: usize,
    /// wall-clock budget; when exceeded the rest of the unit's tree is dropped and the unit is reported as not exhaustive
    pub budget_s: f64,
    /// timeout for nonlinear branch-feasibility queries (None = the run's solver timeout)
    pub branch_nl_timeout_ms: Option<u64>,
    /// Some(seed): explore only the path followed by one pseudo-random sample input (see Ctx::concolic)
    pub concolic: Option<u64>,
}
pub trait CallWith<F> { fn call_with(&self, f: F); }
macro_rules! impl_call_with { ($($t:ident $i:tt),*) => { impl<$($t: Clone,)* Func: Fn($($t),*)> CallWith<Func> for ($($t,)*) { fn call_with(&self, f: Func) { f($(self.$i.clone()),*) } } } }
impl<Func: Fn()> CallWith<Func> for () { fn call_with(&self, f: Func) { f() } }
impl_call_with!(A 0);
impl_call_with!(A 0, B 1);
impl_call_with!(A 0, B 1, C 2);
impl_call_with!(A 0, B 1, C 2, D 3);
impl_call_with!(A 0, B 1, C 2, D 3, E 4);
impl_call_with!(A 0, B 1, C 2, D 3, E 4, G 5);
impl_call_with!(A 0, B 1, C 2, D 3, E 4, G 5, H 6);
impl_call_with!(A 0, B 1, C 2, D 3, E 4, G 5, H 6, I 7);
#[macro_export]
macro_rules! unit {
    ($id:expr, $f:ident ( $($arg:expr),* )) => {{
        let __id = $id.to_string();
        let __t1 = ($($arg.clone(),)*);
        let __t2 = __t1.clone();
        let __t3 = __t1.clone();
        $crate::run::Unit { id: __id,
            alt: { Box::new(move || $crate::run::CallWith::call_with(&__t3, $f::<$crate::w64::W64>)) },
            sym: { Box::new(move || $crate::run::CallWith::call_with(&__t1, $f::<$crate::sym::Sym>)) },
            nat: { Box::new(move || $crate::run::CallWith::call_with(&__t2, $f::<f64>)) },
            path_cap: 20000, panic_is_violation: true, max_decisions: 600, budget_s: 300.0, branch_nl_timeout_ms: None, concolic: None }
    }};
}

#[derive(Clone, Debug, Default)]
pub struct Replay {
    pub exact_reproduces: bool,
    pub exact_detail: String,
    pub native_reproduces: bool,
    pub native_detail: String,
}
#[derive(Clone, Debug)]
pub struct Finding { pub unit: String, pub v: Violation, pub replay: Replay, pub replay_file: String, pub known: Option<String> }

#[derive(Clone, Debug, Default)]
pub struct UnitReport {
    pub id: String,
    pub paths: u64,
    pub paths_panicked: u64,
    pub paths_pruned: u64,
    pub aborted: Vec<String>,
    pub capped: bool,
    pub stopped_on_violation: bool,
    pub queries: u64, pub n_sat: u64, pub n_unsat: u64, pub n_unknown: u64, pub n_nl: u64, pub solver_secs: f64,
    pub obligations: u64, pub discharged: u64, pub discharged_ident: u64, pub real_equal_only: u64,
    pub unknown_branches: u64,
    pub inconclusive: Vec<String>,
    pub findings: Vec<Finding>,
    pub unconfirmed: Vec<String>,
    pub events: Vec<String>,
    pub panic_msgs: Vec<String>,
    pub sample_paths: Vec<String>,
    pub sample_obligations: Vec<String>,
    pub native_replays: u64,
    pub normal_form_decisions: u64,
    pub cc_asked: u64, pub cc_agreed: u64, pub cc_noanswer: u64, pub cc_disagree: Vec<String>,
    pub wall: f64,
    pub max_path_len: usize,
}

thread_local! { static LAST_PANIC: std::cell::RefCell<String> = std::cell::RefCell::new(String::new()); }
pub fn install_panic_hook() {
    std::panic::set_hook(Box::new(|info| {
        let loc = info.location().map(|l| format!("{}:{}", l.file(), l.line())).unwrap_or_default();
        let msg = info.payload().downcast_ref::<String>().cloned().or_else(|| info.payload().downcast_ref::<&str>().map(|s| s.to_string())).unwrap_or_default();
        LAST_PANIC.with(|p| *p.borrow_mut() = format!("{} at {}", msg, loc));
    }));
}
enum PathEnd { Ok, Panic(String), Abort(String) }
fn run_body(f: &Body) -> PathEnd {
    LAST_PANIC.with(|p| p.borrow_mut().clear());
    // every path starts outside the engine: a mask left over from an earlier abort on this thread would hide the view's allocations (C18)
    crate::sym::IN_ENGINE.with(|e| e.set(0));
    crate::alloc::reset();
    match std::panic::catch_unwind(std::panic::AssertUnwindSafe(|| f())) {
        Ok(()) => PathEnd::Ok,
        Err(e) => {
            if let Some(a) = e.downcast_ref::<EngineAbort>() { PathEnd::Abort(a.0.clone()) }
            else { PathEnd::Panic(LAST_PANIC.with(|p| p.borrow().clone())) }
        }
    }
}

pub struct Config { pub crosscheck_every: u64, pub threads: usize, pub timeout_ms: u64, pub replay_dir: String, pub property: String, pub known: Vec<KnownFinding>, pub verbose: bool }
#[derive(Clone, Debug)]
pub struct KnownFinding { pub property: String, pub unit_prefix: String, pub label_prefix: String, pub what: String }

struct Sched { jobs: Vec<(usize, Vec<u8>)>, active: usize, reports: Vec<UnitReport>, stopped: Vec<bool>, t0: Vec<Option<Instant>> }

pub fn model_json(m: &[(String, BigRational)]) -> J {
    J::Obj(m.iter().map(|(k, v)| (k.clone(), J::obj(vec![("exact", J::s(v.to_string())), ("f64", J::Num(sym::rat_f64(v)))]))).collect())
}

/// replay a model: exact rationals at Sym (constants only), then natively at f64
/// Replays run on a fresh thread each: thread-local state a (mutated) crate may keep is then that of a first use, as for a user
pub fn replay(unit: &Unit, v: &Violation, timeout_ms: u64) -> Replay {
    std::thread::scope(|s| std::thread::Builder::new().stack_size(512 << 20).spawn_scoped(s, || { install_thread_panic_state(); replay_here(unit, v, timeout_ms) }).expect("spawn replay thread").join().unwrap_or_default())
}
fn install_thread_panic_state() {}
fn replay_here(unit: &Unit, v: &Violation, timeout_ms: u64) -> Replay {
    let mut r = Replay::default();
    // (1) exact. Inputs the model does not mention are unconstrained by the query; they get a default value, and if that
    // default violates an assumption of the harness (e.g. positivity) the next candidate is tried.
    let saved = CTX.with(|c| c.borrow_mut().take());
    let defaults: [(i64, i64); 5] = [(0, 1), (1, 1), (1, 2), (-1, 1), (2, 1)];
    let mut used_default = 0.0f64;
    for (dn, dd) in defaults {
        let mut ctx = Ctx::new(timeout_ms);
        ctx.mode = Mode::Exact;
        ctx.max_decisions = unit.max_decisions;
        ctx.exact_default = BigRational::new(dn.into(), dd.into());
        for (k, val) in &v.model { ctx.exact_inputs.insert(k.clone(), val.clone()); }
        ctx.begin_path(vec![]);
        CTX.with(|c| *c.borrow_mut() = Some(ctx));
        let end = run_body(&unit.sym);
        let (viols, residual) = sym::with(|c| (c.violations.clone(), c.decisions.len()));
        used_default = dn as f64 / dd as f64;
        r.exact_reproduces = false;
        match (&end, v.kind.as_str()) {
            (PathEnd::Panic(m), "panic") => { r.exact_reproduces = true; r.exact_detail = format!("panics: {}", m); }
            (_, "panic") => { r.exact_detail = "no panic on exact replay".into(); }
            (PathEnd::Abort(a), _) => { r.exact_detail = format!("engine abort: {}", a); if a.starts_with("assumption") { continue; } }
            _ => {
                if let Some(x) = viols.iter().find(|x| x.label == v.label) { r.exact_reproduces = true; r.exact_detail = format!("obligation false on exact replay: {}", x.detail); }
                // the same inputs may break the property at another step when the crate keeps state outside the view (the symbolic
                // run's thread had seen other paths before): any obligation of this unit failing on these inputs is a reproduction
                else if let Some(x) = viols.first() { r.exact_reproduces = true; r.exact_detail = format!("on exact replay (fresh thread) these inputs violate '{}': {}", x.label, x.detail); }
                else if let PathEnd::Panic(m) = &end { r.exact_detail = format!("panicked before reaching the obligation: {}", m); }
                else { r.exact_detail = format!("obligation '{}' held on exact replay ({} residual symbolic decisions)", v.label, residual); }
            }
        }
        if r.exact_reproduces || !matches!(end, PathEnd::Abort(_)) { break; }
    }
    CTX.with(|c| *c.borrow_mut() = saved);
    // (2) native f64
    NATIVE.with(|n| { let mut n = n.borrow_mut(); *n = NativeCtx::default(); n.default = used_default; for (k, val) in &v.model { n.inputs.insert(k.clone(), sym::rat_f64(val)); } });
    let end = run_body(&unit.nat);
    NATIVE.with(|n| {
        let n = n.borrow();
        match (&end, v.kind.as_str()) {
            (PathEnd::Panic(m), "panic") => { r.native_reproduces = true; r.native_detail = format!("panics natively (f64, {} profile): {}", profile(), m); }
            (_, "panic") => r.native_detail = format!("no panic natively ({} profile)", profile()),
            _ => {
                if let Some((l, d)) = n.failed.iter().find(|(l, _)| *l == v.label).or(n.failed.first()) { r.native_reproduces = true; r.native_detail = format!("f64 ({} profile): obligation '{}' fails: {}", profile(), l, d); }
                else if let PathEnd::Panic(m) = &end { r.native_detail = format!("f64: panicked: {}", m); }
                else { r.native_detail = format!("f64 ({} profile): obligation held within tolerance ({} obligations evaluated)", profile(), n.obligations); }
            }
        }
        if !n.assumption_failed.is_empty() { r.native_detail.push_str(&format!(" [assumptions not met at f64: {}]", n.assumption_failed.len())); }
    });
    r
}
pub fn profile() -> &'static str { if cfg!(debug_assertions) { "dev" } else { "release" } }

fn write_replay_file(cfg: &Config, unit: &Unit, v: &Violation, rp: &Replay, n: usize) -> String {
    let dir = format!("{}/{}", cfg.replay_dir, cfg.property);
    let _ = std::fs::create_dir_all(&dir);
    let safe: String = unit.id.chars().map(|c| if c.is_ascii_alphanumeric() || c == '-' || c == '_' || c == '.' { c } else { '_' }).collect();
    let path = format!("{}/{}-{}{}.json", dir, safe, n, if cfg!(debug_assertions) { "" } else { "-release" });
    let j = J::obj(vec![
        ("property", J::s(cfg.property.clone())), ("unit", J::s(unit.id.clone())), ("kind", J::s(v.kind.clone())), ("label", J::s(v.label.clone())),
        ("detail", J::s(v.detail.clone())), ("inputs", model_json(&v.model)),
        ("path_decisions", J::s(v.decisions.iter().map(|b| if *b { 'T' } else { 'F' }).collect::<String>())),
        ("exact_replay", J::obj(vec![("reproduces", J::Bool(rp.exact_reproduces)), ("detail", J::s(rp.exact_detail.clone()))])),
        ("native_replay", J::obj(vec![("reproduces", J::Bool(rp.native_reproduces)), ("detail", J::s(rp.native_detail.clone()))])),
        ("query_smt2", J::s(v.smt.clone())),
        ("how_to_replay", J::s(format!("/verif/bin/check replay {}", path))),
    ]);
    let _ = std::fs::write(&path, j.pretty());
    path
}

pub fn explore_all(units: Vec<Unit>, cfg: &Config) -> Vec<UnitReport> {
    let units = Arc::new(units);
    let n = units.len();
    let sched = Arc::new((Mutex::new(Sched { jobs: (0..n).rev().map(|i| (i, vec![])).collect(), active: 0, reports: (0..n).map(|i| UnitReport { id: units[i].id.clone(), ..Default::default() }).collect(), stopped: vec![false; n], t0: vec![None; n] }), Condvar::new()));
    std::thread::scope(|s| {
        for _ in 0..cfg.threads.max(1) {
            let units = units.clone();
            let sched = sched.clone();
            std::thread::Builder::new().stack_size(512 << 20).spawn_scoped(s, move || worker(&units, &sched, cfg)).expect("spawn worker");
        }
    });
    let mut g = sched.0.lock().unwrap();
    std::mem::take(&mut g.reports)
}

fn worker(units: &[Unit], sched: &(Mutex<Sched>, Condvar), cfg: &Config) {
    let mut cur: Option<usize> = None;
    loop {
        // fetch a job, preferring the unit this thread already has a context for
        let job = {
            let mut g = sched.0.lock().unwrap();
            loop {
                let pos = cur.and_then(|u| g.jobs.iter().rposition(|(j, _)| *j == u)).or(if g.jobs.is_empty() { None } else { Some(g.jobs.len() - 1) });
                if let Some(p) = pos {
                    let j = g.jobs.remove(p);
                    g.active += 1;
                    if g.t0[j.0].is_none() { g.t0[j.0] = Some(Instant::now()); }
                    break Some(j);
                }
                if g.active == 0 { sched.1.notify_all(); break None; }
                g = sched.1.wait(g).unwrap();
            }
        };
        let Some((ui, prefix)) = job else { CTX.with(|c| *c.borrow_mut() = None); return; };
        let unit = &units[ui];
        if cur != Some(ui) {
            let mut ctx = Ctx::new(cfg.timeout_ms);
            ctx.max_decisions = unit.max_decisions;
            ctx.solver.tag = unit.id.clone();
            if let Some(t) = unit.branch_nl_timeout_ms { ctx.branch_nl_timeout_ms = t; }
            ctx.concolic = unit.concolic;
            ctx.crosscheck_every = cfg.crosscheck_every;
            CTX.with(|c| *c.borrow_mut() = Some(ctx));
            cur = Some(ui);
        }
        let deadline = { let g = sched.0.lock().unwrap(); g.t0[ui].map(|t| t + std::time::Duration::from_secs_f64(unit.budget_s)) };
        let nf0 = sym::with(|c| c.n_lin_decided.get() + c.n_poly_decided.get() + c.n_rat_decided.get());
        let (q0, s0) = sym::with(|c| { c.deadline = deadline; c.begin_path(prefix.clone()); ((c.solver.queries, c.solver.n_sat, c.solver.n_unsat, c.solver.n_unknown, c.solver.n_nl), c.solver.secs) });
        let end = run_body(&unit.sym);
        // a crate panic on a feasible path
        let mut panic_violation: Option<Violation> = None;
        if let PathEnd::Panic(msg) = &end {
            if unit.panic_is_violation {
                let (r, model, raw) = sym::with(|c| if c.concolic.is_some() { (Sat::Sat, c.sample_model(), String::from("concolic sample")) } else { c.query(&[], true) });
                let (dec, smt) = sym::with(|c| (c.decisions.clone(), c.solver.last_query.clone()));
                if r != Sat::Unsat { panic_violation = Some(Violation { label: format!("panic: {}", msg), kind: "panic".into(), decisions: dec, model, model_raw: raw, smt, detail: msg.clone() }); }
            }
        }
        let (stats, mut viols, pending, dec, pcs) = sym::with(|c| (c.stats.clone(), c.violations.clone(), std::mem::take(&mut c.pending), c.decisions.clone(), if c.pc.len() <= 12 { c.pc.iter().map(|x| c.describe(x)).collect::<Vec<_>>().join(" ∧ ") } else { format!("{} conjuncts", c.pc.len()) }));
        if let Some(v) = panic_violation { viols.push(v); }
        let (q1, s1) = sym::with(|c| ((c.solver.queries, c.solver.n_sat, c.solver.n_unsat, c.solver.n_unknown, c.solver.n_nl), c.solver.secs));
        // confirm the first violation of this path by replay
        let mut findings = vec![];
        let mut unconfirmed = vec![];
        let mut replays = 0;
        if let Some(v) = viols.first() {
            let already = { let g = sched.0.lock().unwrap(); g.stopped[ui] };
            if !already {
                let rp = replay(unit, v, cfg.timeout_ms);
                replays += 1;
                if rp.exact_reproduces {
                    let known = cfg.known.iter().find(|k| k.property == cfg.property && unit.id.starts_with(&k.unit_prefix) && v.label.starts_with(&k.label_prefix)).map(|k| k.what.clone());
                    findings.push(Finding { unit: unit.id.clone(), v: v.clone(), replay: rp, replay_file: String::new(), known });
                } else {
                    unconfirmed.push(format!("{}: solver model did not reproduce exactly ({}); model={:?} raw={} detail={}", v.label, rp.exact_detail, v.model.iter().map(|(k, x)| format!("{}={}", k, x)).collect::<Vec<_>>(), v.model_raw.chars().take(300).collect::<String>(), v.detail.chars().take(300).collect::<String>()));
                }
            }
        }
        let mut g = sched.0.lock().unwrap();
        let stopped = g.stopped[ui];
        {
            let r = &mut g.reports[ui];
            r.paths += 1;
            r.max_path_len = r.max_path_len.max(dec.len());
            match &end {
                PathEnd::Ok => {}
                PathEnd::Panic(m) => { r.paths_panicked += 1; if r.panic_msgs.len() < 8 && !r.panic_msgs.contains(m) { r.panic_msgs.push(m.clone()); } }
                PathEnd::Abort(a) if sym::with(|c| c.concretised) && false => { let _ = a; }
                PathEnd::Abort(a) => { if a.starts_with("assumption") { r.paths_pruned += 1 } else if a.starts_with("budget") { r.capped = true } else if r.aborted.len() < 8 { r.aborted.push(a.clone()) } }
            }
            r.queries += q1.0 - q0.0; r.n_sat += q1.1 - q0.1; r.n_unsat += q1.2 - q0.2; r.n_unknown += q1.3 - q0.3; r.n_nl += q1.4 - q0.4; r.solver_secs += s1 - s0;
            r.obligations += stats.obligations; r.discharged += stats.discharged; r.discharged_ident += stats.discharged_ident; r.real_equal_only += stats.real_equal_only;
            r.unknown_branches += stats.unknown_branches;
            r.native_replays += replays;
            if sym::with(|c| std::mem::take(&mut c.concretised)) { r.capped = true; }
            let cc = sym::with(|c| std::mem::take(&mut c.crosscheck));
            r.cc_asked += cc.0; r.cc_agreed += cc.1; r.cc_noanswer += cc.2; r.cc_disagree.extend(cc.3);
            r.normal_form_decisions += sym::with(|c| c.n_lin_decided.get() + c.n_poly_decided.get() + c.n_rat_decided.get()) - nf0;
            for i in stats.inconclusive { if r.inconclusive.len() < 16 { r.inconclusive.push(i) } }
            for e in stats.events { if r.events.len() < 6 && !r.events.contains(&e) { r.events.push(e) } }
            for u in unconfirmed { if r.unconfirmed.len() < 8 { r.unconfirmed.push(u) } }
            if r.sample_paths.len() < 3 { r.sample_paths.push(format!("decisions={} PC: {}", dec.iter().map(|b| if *b { 'T' } else { 'F' }).collect::<String>(), pcs)); }
            for o in stats.sample_obligations { if r.sample_obligations.len() < 2 { r.sample_obligations.push(o) } }
        }
        if !findings.is_empty() && !stopped {
            // first confirmed violation ends the unit (the rest of its tree is not explored)
            let nth = g.reports[ui].findings.len();
            for mut f in findings { f.replay_file = write_replay_file(cfg, unit, &f.v, &f.replay, nth); g.reports[ui].findings.push(f); }
            g.stopped[ui] = true;
            g.reports[ui].stopped_on_violation = true;
            g.jobs.retain(|(j, _)| *j != ui);
        } else if !g.stopped[ui] {
            let over_budget = g.t0[ui].map_or(false, |t| t.elapsed().as_secs_f64() > unit.budget_s);
            if over_budget { g.jobs.retain(|(j, _)| *j != ui); }
            if over_budget || g.reports[ui].paths as usize + g.jobs.iter().filter(|(j, _)| *j == ui).count() + pending.len() > unit.path_cap {
                g.reports[ui].capped = true;
            } else {
                for p in pending { g.jobs.push((ui, p)); }
            }
        }
        if let Some(t0) = g.t0[ui] { g.reports[ui].wall = t0.elapsed().as_secs_f64(); }
        g.active -= 1;
        if cfg.verbose && g.reports[ui].paths % 500 == 0 { eprintln!("  .. {} paths={} jobs={}", unit.id, g.reports[ui].paths, g.jobs.len()); }
        sched.1.notify_all();
    }
}

/// Native sample run: the unit's harness at f64 on pseudo-random inputs (a coarse grid, so ties occur), obligations evaluated with a
/// loose 1e-4 tolerance. Not a decision procedure — a guard that the compiled f64 instantiation (this build profile) follows the
/// generic code the solver reasoned about; a robust failure is a concrete witness against the real code.
pub fn native_sample(unit: &Unit, seed: u64, alt: bool) -> Option<(Vec<(String, String)>, Vec<(String, f64)>)> {
    NATIVE.with(|n| { let mut n = n.borrow_mut(); *n = NativeCtx::default(); n.sample_seed = Some(seed); n.tol = 1e-4; });
    let end = run_body(if alt { &unit.alt } else { &unit.nat });
    NATIVE.with(|n| {
        let n = n.borrow();
        if !n.assumption_failed.is_empty() { return None; } // the sample is outside the harness's input domain
        let mut failed: Vec<(String, String)> = n.failed.clone();
        if let PathEnd::Panic(m) = &end { // the label is the panic *site*: the message may format the scalar (`left: 0.0` vs `left: W64(0.0)`)
            let site = m.rfind(" at ").map(|i| &m[i..]).unwrap_or("");
            failed.push((format!("panic{}", site), format!("panics: {}", m))); }
        Some((failed, n.used.clone()))
    })
}
/// run a single unit natively on given inputs (used by `replay <file>` and by the self-test)
pub fn run_native(unit: &Unit, inputs: &HashMap<String, f64>) -> (Vec<(String, String)>, Option<String>, u64) {
    NATIVE.with(|n| { let mut n = n.borrow_mut(); *n = NativeCtx::default(); n.inputs = inputs.clone(); });
    let end = run_body(&unit.nat);
    let p = if let PathEnd::Panic(m) = end { Some(m) } else { None };
    NATIVE.with(|n| { let n = n.borrow(); (n.failed.clone(), p, n.obligations) })
}
