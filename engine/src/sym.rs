//! Engine R core: `Sym`, a term-building scalar that implements `num::Float`, so that the
//! crate's real generic `View<T>` code, instantiated at `T = Sym`, executes symbolically.
//! Arithmetic builds hash-consed terms over the reals; every comparison is a branch point
//! decided by an SMT solver (z3 over a pipe); integer state runs concretely.
use num::{BigInt, BigRational, Num, NumCast, One, Signed, ToPrimitive, Zero};
use std::cell::RefCell;
use std::collections::HashMap;
use std::io::{BufRead, BufReader, Write};
use std::process::{Child, ChildStdin, ChildStdout, Command, Stdio};
use std::time::Instant;

/// (size and alignment 8, like f64, so that code keyed on `size_of::<T>()` takes the same route as for f64)
#[derive(Clone, Copy, Debug)]
#[repr(align(8))]
pub struct Sym(pub u32);

#[derive(Clone, PartialEq, Eq, Hash, Debug)]
pub enum Node {
    Const(BigRational),
    NaN,
    PInf,
    NInf,
    Var(u32),
    Add(u32, u32),
    Sub(u32, u32),
    Mul(u32, u32),
    Div(u32, u32),
    Neg(u32),
    Sqrt(u32),
    Uf(&'static str, u32),
}

/// Conditions over a scalar domain. Harness code builds these generically; at `Sym` they are
/// lowered to SMT, at `f64` they are evaluated with a tolerance (replay).
#[derive(Clone, Debug)]
pub enum Cond<T> {
    Lt(T, T),
    Le(T, T),
    Eq(T, T),
    Ne(T, T),
    /// bit-identity: same term (Sym) / same bits (f64). Falls back to real equality in queries.
    Ident(T, T),
    /// `a == b`, already established by the engine as a polynomial identity (created only by `Dom::lemma_eq`); handed to the solver
    /// as a fact linking two differently-structured terms
    Lemma(T, T),
    And(Vec<Cond<T>>),
    Or(Vec<Cond<T>>),
    Not(Box<Cond<T>>),
    Bool(bool),
}
impl<T: Copy> Cond<T> {
    pub fn and(v: Vec<Cond<T>>) -> Self { Cond::And(v) }
    pub fn or(v: Vec<Cond<T>>) -> Self { Cond::Or(v) }
    pub fn not(c: Cond<T>) -> Self { Cond::Not(Box::new(c)) }
    pub fn implies(a: Cond<T>, b: Cond<T>) -> Self { Cond::Or(vec![Cond::not(a), b]) }
    pub fn between(lo: T, x: T, hi: T) -> Self { Cond::And(vec![Cond::Le(lo, x), Cond::Le(x, hi)]) }
}

#[derive(Clone, Copy, PartialEq, Eq, Debug)]
pub enum Sat {
    Sat,
    Unsat,
    Unknown,
}

pub struct Solver {
    child: Child,
    inp: ChildStdin,
    out: std::sync::mpsc::Receiver<String>,
    pub queries: u64,
    pub n_sat: u64,
    pub n_unsat: u64,
    pub n_unknown: u64,
    pub n_nl: u64,
    pub n_killed: u64,
    pub secs: f64,
    pub secs_nl: f64,
    pub timeout_ms: u64,
    pub last_query: String,
    pub last_query_only: String,
    pub tag: String,
    pub slow: Vec<String>,
    decls: Vec<String>,
    depth: u32,
    buf: String,
}
fn spawn_z3() -> (Child, ChildStdin, std::sync::mpsc::Receiver<String>) {
    let bin = std::env::var("VERIF_Z3").unwrap_or_else(|_| "z3".into());
    let mut child = Command::new(bin).args(["-in", "-smt2"]).stdin(Stdio::piped()).stdout(Stdio::piped()).stderr(Stdio::null()).spawn().expect("cannot start z3");
    let inp = child.stdin.take().unwrap();
    let stdout = child.stdout.take().unwrap();
    let (tx, rx) = std::sync::mpsc::channel();
    std::thread::spawn(move || { let r = BufReader::new(stdout); for line in r.lines() { match line { Ok(l) => { if tx.send(l).is_err() { break; } } Err(_) => break } } });
    (child, inp, rx)
}
impl Solver {
    pub fn new(timeout_ms: u64) -> Self {
        let (child, inp, out) = spawn_z3();
        let mut s = Solver { child, inp, out, queries: 0, n_sat: 0, n_unsat: 0, n_unknown: 0, n_nl: 0, n_killed: 0, secs: 0.0, secs_nl: 0.0, timeout_ms, last_query: String::new(), last_query_only: String::new(), tag: String::new(), slow: vec![], decls: vec![], depth: 0, buf: String::new() };
        s.preamble();
        s
    }
    fn preamble(&mut self) {
        self.buf.push_str("(set-option :global-declarations true)\n");
        self.buf.push_str(&format!("(set-option :timeout {})\n", self.timeout_ms));
    }
    /// kill a z3 that does not honour its time limit, start a fresh one and replay all scope-0 declarations
    fn restart(&mut self) {
        let _ = self.child.kill();
        let _ = self.child.wait();
        let (child, inp, out) = spawn_z3();
        self.child = child; self.inp = inp; self.out = out;
        self.buf.clear();
        self.depth = 0;
        self.n_killed += 1;
        self.preamble();
        for d in &self.decls { self.buf.push_str(d); self.buf.push('\n'); }
    }
    pub fn decls_text(&self) -> Vec<String> { self.decls.clone() }
    /// a scope-0 declaration / definition (remembered for restarts)
    pub fn declare(&mut self, l: &str) { self.decls.push(l.to_string()); self.send(l); }
    fn read_line(&mut self, limit_ms: u64) -> Option<String> { self.out.recv_timeout(std::time::Duration::from_millis(limit_ms)).ok() }
    pub fn send(&mut self, l: &str) {
        self.buf.push_str(l);
        self.buf.push('\n');
    }
    fn flush(&mut self) {
        if let Ok(d) = std::env::var("VERIF_DUMP_SMT") { use std::io::Write as _; if let Ok(mut f) = std::fs::OpenOptions::new().create(true).append(true).open(format!("{}/z3-{:?}.smt2", d, std::thread::current().id())) { let _ = f.write_all(self.buf.as_bytes()); } }
        if self.inp.write_all(self.buf.as_bytes()).is_err() || self.inp.flush().is_err() { self.buf.clear(); self.restart(); return; }
        self.buf.clear();
    }
    /// push; assert all; check. Caller must `pop()` (possibly after `model`).
    pub fn check(&mut self, asserts: &[String], nonlinear: bool) -> Sat { let t = self.timeout_ms; self.check_t(asserts, nonlinear, t) }
    pub fn check_t(&mut self, asserts: &[String], nonlinear: bool, nl_timeout_ms: u64) -> Sat {
        self.queries += 1;
        let t0 = Instant::now();
        self.send("(push)");
        let mut q = String::new();
        for a in asserts {
            let l = format!("(assert {})", a);
            q.push_str(&l);
            q.push('\n');
            self.send(&l);
        }
        if nonlinear {
            self.n_nl += 1;
            self.send(&format!("(check-sat-using (or-else (try-for qfnra-nlsat {}) (try-for smt {})))", nl_timeout_ms, nl_timeout_ms));
        } else {
            self.send("(check-sat)");
        }
        self.last_query_only = q.clone();
        self.last_query = q;
        self.flush();
        self.depth += 1;
        let hard = if nonlinear { 2 * nl_timeout_ms + 3000 } else { self.timeout_ms + 3000 };
        let r = loop {
            let Some(line) = self.read_line(hard) else { self.restart(); break Sat::Unknown; };
            match line.trim() {
                "sat" => break Sat::Sat,
                "unsat" => break Sat::Unsat,
                "" => continue,
                _ => break Sat::Unknown, // unknown, timeout, (error ...) => inconclusive
            }
        };
        match r { Sat::Sat => self.n_sat += 1, Sat::Unsat => self.n_unsat += 1, Sat::Unknown => self.n_unknown += 1 }
        let dt = t0.elapsed().as_secs_f64();
        self.secs += dt;
        if nonlinear { self.secs_nl += dt; }
        if dt > 0.5 { if let Ok(dir) = std::env::var("VERIF_DUMP_SLOW") { let _ = std::fs::write(format!("{}/slow-{}-{}.smt2", dir, std::process::id(), self.queries), format!("{}\n{}(check-sat)\n", self.decls.join("\n"), self.last_query_only)); } }
        if dt > 3.0 { let m = format!("slow query {:.1}s -> {:?} [{}] nl={} asserts={}", dt, r, self.tag, nonlinear, asserts.len()); if std::env::var("VERIF_SLOWLOG").is_ok() { eprintln!("{}", m); } if self.slow.len() < 4 { self.slow.push(m); } }
        r
    }
    pub fn model(&mut self, names: &[String]) -> String {
        if names.is_empty() { return String::new(); }
        if self.depth == 0 { return String::new(); }
        self.send(&format!("(get-value ({}))", names.join(" ")));
        self.flush();
        let mut acc = String::new();
        let mut depth = 0i32;
        loop {
            let Some(line) = self.read_line(10000) else { self.restart(); break; };
            for ch in line.chars() { if ch == '(' { depth += 1 } if ch == ')' { depth -= 1 } }
            acc.push_str(&line);
            acc.push('\n');
            if depth <= 0 && !acc.trim().is_empty() { break; }
        }
        acc
    }
    pub fn pop(&mut self) { if self.depth > 0 { self.depth -= 1; self.send("(pop)"); } }
    /// values of `names` as decimal approximations (for algebraic numbers z3 prints as root-obj)
    pub fn model_decimal(&mut self, names: &[String]) -> String {
        self.send("(set-option :pp.decimal true)");
        self.send("(set-option :pp.decimal_precision 20)");
        let r = self.model(names);
        self.send("(set-option :pp.decimal false)");
        r
    }
}
impl Drop for Solver {
    fn drop(&mut self) {
        if std::env::var("VERIF_SOLVERSTATS").is_ok() { eprintln!("solver[{}]: queries={} nl={} secs={:.2} secs_nl={:.2} killed={}", self.tag, self.queries, self.n_nl, self.secs, self.secs_nl, self.n_killed); }
        let _ = self.child.kill();
        let _ = self.child.wait();
    }
}

#[derive(Clone, Debug)]
pub struct Violation {
    pub label: String,
    pub kind: String, // "obligation" | "panic"
    pub decisions: Vec<bool>,
    pub model: Vec<(String, BigRational)>,
    pub model_raw: String,
    pub smt: String,
    pub detail: String,
}

#[derive(Clone, Debug, Default)]
pub struct PathStats {
    pub obligations: u64,
    pub discharged: u64,
    pub discharged_ident: u64, // discharged by term identity alone (bit-identical in every format)
    pub real_equal_only: u64,  // Ident obligations proven equal in reals but not term-identical
    pub inconclusive: Vec<String>,
    pub unknown_branches: u64,
    pub events: Vec<String>,
    pub sample_obligations: Vec<String>,
}

#[derive(Clone, Copy, PartialEq, Eq, Debug)]
pub enum Mode {
    Symbolic,
    /// inputs are exact rational constants (replay); no solver involved unless something stays symbolic
    Exact,
}

pub struct Ctx {
    pub nodes: Vec<Node>,
    cons: HashMap<Node, u32>,
    deps: Vec<[u32; 2]>,
    ndeps: Vec<u8>,
    nl: Vec<bool>,
    defs: Vec<String>,
    declared: Vec<bool>,
    /// the term contains, outside any sqrt/transcendental atom, a division by a non-constant
    hd: Vec<bool>,
    pub solver: Solver,
    pub mode: Mode,
    pub exact_inputs: HashMap<String, BigRational>,
    /// value given (in Exact mode) to inputs the model does not mention
    pub exact_default: BigRational,
    /// exact replay only: the operands of the most recent constant division that produced each constant (so that an obligation
    /// posed on a destructured quotient, `ratio_parts`, is reached on replay too, where every term folds to a constant)
    pub div_parts: HashMap<u32, (u32, u32)>,
    /// exact replay only: the argument of the most recent constant square root that produced each constant
    pub sqrt_args: HashMap<u32, u32>,
    pub var_names: Vec<String>,
    var_ids: HashMap<String, u32>,
    // per-path state
    pub pc: Vec<Cond<Sym>>,
    pub decisions: Vec<bool>,
    /// decision prefix to replay: 0/1 = free false/true, 2/3 = forced false/true (other side infeasible; nonlinear forced conjuncts are not added to the PC)
    pub prefix: Vec<u8>,
    pub pending: Vec<Vec<u8>>,
    pub trace: Vec<u8>,
    cache: HashMap<(u8, u32, u32), bool>,
    pub stats: PathStats,
    pub violations: Vec<Violation>,
    pub max_decisions: usize,
    pub check_obligations: bool,
    /// Exact mode only: some sqrt/transcendental of a constant was approximated in f64 on this path,
    /// so obligations are evaluated with a 1e-9 relative tolerance instead of exactly
    pub approx: bool,
    pub n_inputs: u32,
    /// timeout for nonlinear *branch-feasibility* queries (an undecided branch is explored on both sides, which is sound)
    pub branch_nl_timeout_ms: u64,
    /// wall-clock deadline of the unit being explored (None = no limit)
    pub deadline: Option<Instant>,
    ticks: std::cell::Cell<u32>,
    pc_smt: Vec<String>,
    levels: Vec<Level>,
    solver_epoch: u64,
    lin_memo: RefCell<HashMap<u32, std::rc::Rc<Lin>>>,
    pub n_lin_decided: std::cell::Cell<u64>,
    /// variable nodes registered as ranging over [-1,1] (the assumption itself is a PC conjunct)
    pub unit_box: std::collections::HashSet<u32>,
    alin_memo: RefCell<HashMap<u32, std::rc::Rc<ALin>>>,
    /// older generation of the ALin memo (two-generation cache: entries that are still being used survive a rotation)
    alin_old: RefCell<HashMap<u32, std::rc::Rc<ALin>>>,
    alin_weight: std::cell::Cell<usize>,
    poly_memo: RefCell<HashMap<u32, Option<std::rc::Rc<Poly>>>>,
    rat_memo: RefCell<HashMap<u32, Option<(std::rc::Rc<Poly>, std::rc::Rc<Poly>)>>>,
    pub n_rat_decided: std::cell::Cell<u64>,
    /// the rational normal form is tried for obligations only (not for the code's own comparisons, where an identity is rare and the
    /// expansion costs more than the query)
    rat_ok: std::cell::Cell<bool>,
    box_seq: u64,
    pub n_poly_decided: std::cell::Cell<u64>,
    /// cross-check every k-th UNSAT obligation (and every SAT one) with cvc5 (0 = off)
    pub crosscheck_every: u64,
    pub ob_seq: u64,
    pub crosscheck: (u64, u64, u64, Vec<String>), // asked, agreed, cvc5 had no answer, disagreements
    /// concolic path selection: every branch is decided by evaluating it (in f64) on one pseudo-random sample input
    /// derived from this seed; the decision is added to the path condition, no alternative is explored. The verdict of the
    /// obligations then covers all inputs that follow the sample's path (stated as a bound in the evidence).
    pub concolic: Option<u64>,
    pub concretised: bool,
    fval_memo: RefCell<HashMap<u32, f64>>,
}
struct Level { smt: String, nl: bool, special: Vec<u32>, vars: Vec<u32>, axioms: Vec<String> }
/// Linear form with coefficients on the grid 2^-AGRID and one rigorous bound `err` (in grid units) on the total
/// coefficient error:  |c0 - m0| + sum_i |c_i - m_i| <= err * 2^-AGRID.  Used for long recursive filters whose exact
/// rational coefficients have tens of thousands of bits. (Worst-case error grows like (sum |k|)^t, hence the fine grid.)
pub struct ALin { pub c0: BigInt, pub t: Vec<(u32, BigInt)>, pub err: BigInt }
const AGRID: usize = 2560;
impl ALin {
    fn combine(a: &ALin, b: &ALin, neg_b: bool) -> ALin {
        let sg = |x: &BigInt| if neg_b { -x } else { x.clone() };
        let mut t = Vec::with_capacity(a.t.len() + b.t.len());
        let (mut i, mut j) = (0, 0);
        while i < a.t.len() || j < b.t.len() {
            if j >= b.t.len() || (i < a.t.len() && a.t[i].0 < b.t[j].0) { t.push(a.t[i].clone()); i += 1; }
            else if i >= a.t.len() || b.t[j].0 < a.t[i].0 { t.push((b.t[j].0, sg(&b.t[j].1))); j += 1; }
            else { t.push((a.t[i].0, &a.t[i].1 + sg(&b.t[j].1))); i += 1; j += 1; }
        }
        ALin { c0: &a.c0 + sg(&b.c0), t, err: &a.err + &b.err }
    }
    fn scale(a: &ALin, k: &BigRational) -> ALin {
        use num::Integer;
        let (p, q) = (k.numer(), k.denom());
        let f = |m: &BigInt| -> BigInt { (m * p).div_floor(q) };
        // each floor loses < 1 grid unit; the incoming error is scaled by |k|
        let err = (&a.err * p.abs() + q - BigInt::one()).div_floor(q) + BigInt::from(a.t.len() + 1);
        ALin { c0: f(&a.c0), t: a.t.iter().map(|(v, m)| (*v, f(m))).collect(), err }
    }
    fn konst(r: &BigRational) -> ALin {
        use num::Integer;
        ALin { c0: (r.numer() << AGRID).div_floor(r.denom()), t: vec![], err: if r.denom().is_one() { BigInt::zero() } else { BigInt::one() } }
    }
}
/// polynomial normal form over atoms (variables, uninterpreted applications, quotients by a symbolic divisor, square roots with
/// sqrt(a)^2 rewritten to a): used only to decide *identities* `p == q` by expansion; anything else goes to the solver
pub type Mono = Vec<(u32, u32)>;
#[derive(Clone, PartialEq)]
pub struct Poly { pub m: std::collections::BTreeMap<Mono, BigRational> }
const POLY_CAP: usize = 2500;
/// cap (monomials) of the rational normal form: it multiplies denominators out, so it is kept small
const RAT_CAP: usize = 160;
impl Poly {
    fn konst(c: BigRational) -> Poly { let mut m = std::collections::BTreeMap::new(); if !c.is_zero() { m.insert(vec![], c); } Poly { m } }
    fn atom(id: u32) -> Poly { let mut m = std::collections::BTreeMap::new(); m.insert(vec![(id, 1)], BigRational::one()); Poly { m } }
    fn add(&self, o: &Poly, k: &BigRational) -> Poly { let mut m = self.m.clone(); for (mo, c) in &o.m { let e = m.entry(mo.clone()).or_insert_with(BigRational::zero); *e += c * k; if e.is_zero() { m.remove(mo); } } Poly { m } }
    fn scale(&self, k: &BigRational) -> Poly { if k.is_zero() { Poly::konst(BigRational::zero()) } else { Poly { m: self.m.iter().map(|(a, c)| (a.clone(), c * k)).collect() } } }
    fn add_assign(&mut self, o: &Poly, k: &BigRational) { for (mo, c) in &o.m { let e = self.m.entry(mo.clone()).or_insert_with(BigRational::zero); *e += c * k; if e.is_zero() { self.m.remove(mo); } } }
}
/// linear normal form of a term over "atoms" (variables, sqrt/uf nodes, nonlinear products/quotients): c0 + sum c_i * atom_i
pub struct Lin { pub c0: BigRational, pub t: Vec<(u32, BigRational)> }
/// Exact rational arithmetic with a fast path for dyadic numbers (every f64 constant is one, and sums and products of dyadic
/// numbers stay dyadic): `num_rational` reduces every result with a binary gcd that shifts one bit at a time, which is quadratic
/// on the 10^4-bit coefficients of a long recursion; for denominators that are powers of two the reduction is a count of trailing zeros.
fn dy_exp(d: &BigInt) -> Option<u64> { let tz = d.trailing_zeros()?; if d.bits() == tz + 1 && d.is_positive() { Some(tz) } else { None } }
fn dy_norm(n: BigInt, e: u64) -> BigRational {
    if n.is_zero() { return BigRational::zero(); }
    let tz = n.trailing_zeros().unwrap_or(0).min(e);
    BigRational::new_raw(n >> tz, BigInt::one() << (e - tz))
}
pub fn q_mul(a: &BigRational, b: &BigRational) -> BigRational {
    match (dy_exp(a.denom()), dy_exp(b.denom())) { (Some(ea), Some(eb)) => dy_norm(a.numer() * b.numer(), ea + eb), _ => a * b }
}
pub fn q_add(a: &BigRational, b: &BigRational) -> BigRational {
    match (dy_exp(a.denom()), dy_exp(b.denom())) {
        (Some(ea), Some(eb)) => { let e = ea.max(eb); dy_norm((a.numer() << (e - ea)) + (b.numer() << (e - eb)), e) }
        _ => a + b,
    }
}
impl Lin {
    fn combine(a: &Lin, b: &Lin, kb: &BigRational) -> Lin {
        // a + kb * b
        let mut t = Vec::with_capacity(a.t.len() + b.t.len());
        let (mut i, mut j) = (0, 0);
        while i < a.t.len() || j < b.t.len() {
            if j >= b.t.len() || (i < a.t.len() && a.t[i].0 < b.t[j].0) { t.push(a.t[i].clone()); i += 1; }
            else if i >= a.t.len() || b.t[j].0 < a.t[i].0 { t.push((b.t[j].0, q_mul(kb, &b.t[j].1))); j += 1; }
            else { let c = q_add(&a.t[i].1, &q_mul(kb, &b.t[j].1)); if !c.is_zero() { t.push((a.t[i].0, c)); } i += 1; j += 1; }
        }
        Lin { c0: q_add(&a.c0, &q_mul(kb, &b.c0)), t }
    }
    fn scale(a: &Lin, k: &BigRational) -> Lin { if k.is_zero() { Lin { c0: BigRational::zero(), t: vec![] } } else { Lin { c0: q_mul(&a.c0, k), t: a.t.iter().map(|(v, c)| (*v, q_mul(c, k))).collect() } } }
}

thread_local! {
    pub static CTX: RefCell<Option<Ctx>> = RefCell::new(None);
    /// set while the engine itself is running (masks the counting allocator, see alloc.rs)
    pub static IN_ENGINE: std::cell::Cell<u32> = const { std::cell::Cell::new(0) };
}
/// RAII guard marking "inside the engine" for the whole duration of a Sym operation (masks the counting allocator)
pub struct EngGuard;
impl Drop for EngGuard { fn drop(&mut self) { IN_ENGINE.with(|e| e.set(e.get() - 1)); } }
#[inline]
pub fn enter() -> EngGuard { IN_ENGINE.with(|e| e.set(e.get() + 1)); EngGuard }
pub fn with<R>(f: impl FnOnce(&mut Ctx) -> R) -> R {
    // RAII: an engine abort (budget, infeasible assumption) unwinds through here and must not leave the mask set
    let _g = enter();
    CTX.with(|c| f(c.borrow_mut().as_mut().expect("no symbolic context on this thread")))
}

/// payload used to abandon a path from inside the engine (not a crate panic)
pub struct EngineAbort(pub String);

pub fn rat_smt(r: &BigRational) -> String {
    let n = r.numer();
    let d = r.denom();
    let ns = if n.is_negative() { format!("(- {}.0)", -n) } else { format!("{}.0", n) };
    if d.is_one() { ns } else { format!("(/ {} {}.0)", ns, d) }
}
pub fn rat_f64(r: &BigRational) -> f64 {
    r.to_f64().unwrap_or(f64::NAN)
}
pub fn f64_rat(f: f64) -> BigRational {
    BigRational::from_float(f).expect("finite")
}

impl Ctx {
    pub fn new(timeout_ms: u64) -> Self {
        Ctx {
            nodes: vec![], cons: HashMap::new(), deps: vec![], ndeps: vec![], nl: vec![], hd: vec![], defs: vec![], declared: vec![],
            solver: Solver::new(timeout_ms), mode: Mode::Symbolic, exact_inputs: HashMap::new(), exact_default: BigRational::zero(), div_parts: HashMap::new(), sqrt_args: HashMap::new(),
            var_names: vec![], var_ids: HashMap::new(),
            pc: vec![], decisions: vec![], prefix: vec![], pending: vec![], trace: vec![], cache: HashMap::new(),
            stats: PathStats::default(), violations: vec![], max_decisions: 400, check_obligations: true, approx: false, n_inputs: 0, branch_nl_timeout_ms: timeout_ms, deadline: None, ticks: std::cell::Cell::new(0), pc_smt: vec![], levels: vec![], solver_epoch: 0, lin_memo: RefCell::new(HashMap::new()), n_lin_decided: std::cell::Cell::new(0), unit_box: Default::default(), alin_memo: RefCell::new(HashMap::new()), alin_old: RefCell::new(HashMap::new()), alin_weight: std::cell::Cell::new(0), poly_memo: RefCell::new(HashMap::new()), n_poly_decided: std::cell::Cell::new(0), rat_memo: RefCell::new(HashMap::new()), n_rat_decided: std::cell::Cell::new(0), rat_ok: std::cell::Cell::new(false), box_seq: 0, crosscheck_every: 0, ob_seq: 0, crosscheck: (0, 0, 0, vec![]), concolic: None, concretised: false, fval_memo: RefCell::new(HashMap::new()),
        }
    }
    pub fn begin_path(&mut self, prefix: Vec<u8>) {
        self.box_seq = 0;
        self.pc.clear();
        self.pc_smt.clear();
        self.decisions.clear();
        self.prefix = prefix;
        self.pending.clear();
        self.trace.clear();
        self.cache.clear();
        self.stats = PathStats::default();
        self.violations.clear();
        self.approx = false;
        self.n_inputs = 0;
    }
    /// evaluation of a condition whose atoms are all constants, with a relative tolerance
    /// (loose: could it hold up to 1e-9? strict: does it hold with that margin?)
    pub fn concrete_tol(&self, c: &Cond<Sym>, strict: bool) -> Option<bool> {
        let val = |s: &Sym| -> Option<f64> { match &self.nodes[s.0 as usize] { Node::Const(r) => Some(rat_f64(r)), Node::NaN => Some(f64::NAN), Node::PInf => Some(f64::INFINITY), Node::NInf => Some(f64::NEG_INFINITY), _ => None } };
        let tol = |a: f64, b: f64| { let t = 1e-9 * 1.0f64.max(a.abs()).max(b.abs()); if strict { -t } else { t } };
        Some(match c {
            Cond::Lt(a, b) => { let (x, y) = (val(a)?, val(b)?); x - y < tol(x, y) }
            Cond::Le(a, b) => { let (x, y) = (val(a)?, val(b)?); x - y <= tol(x, y) }
            Cond::Eq(a, b) | Cond::Ident(a, b) | Cond::Lemma(a, b) => { let (x, y) = (val(a)?, val(b)?); if a.0 == b.0 && !x.is_nan() { true } else if strict { x == y && self.atom(2, a.0, b.0) == Ok(true) } else { (x - y).abs() <= tol(x, y) } }
            Cond::Ne(a, b) => { let (x, y) = (val(a)?, val(b)?); if strict { (x - y).abs() > -tol(x, y) } else { self.atom(2, a.0, b.0) != Ok(true) } }
            Cond::And(v) => { for x in v { if !self.concrete_tol(x, strict)? { return Some(false); } } true }
            Cond::Or(v) => { for x in v { if self.concrete_tol(x, strict)? { return Some(true); } } false }
            Cond::Not(x) => !self.concrete_tol(x, !strict)?,
            Cond::Bool(b) => *b,
        })
    }
    /// like `describe`, but with the numeric values of constant atoms (replay diagnostics)
    pub fn describe_vals(&self, c: &Cond<Sym>) -> String {
        let v = |s: &Sym| match &self.nodes[s.0 as usize] { Node::Const(r) => format!("{}", rat_f64(r)), Node::NaN => "NaN".into(), Node::PInf => "+Inf".into(), Node::NInf => "-Inf".into(), _ => format!("n{}", s.0) };
        let s = match c {
            Cond::Lt(a, b) => format!("{} < {}", v(a), v(b)), Cond::Le(a, b) => format!("{} <= {}", v(a), v(b)),
            Cond::Eq(a, b) | Cond::Lemma(a, b) => format!("{} == {}", v(a), v(b)), Cond::Ident(a, b) => format!("{} identical-to {}", v(a), v(b)), Cond::Ne(a, b) => format!("{} != {}", v(a), v(b)),
            Cond::And(x) => format!("({})", x.iter().map(|y| self.describe_vals(y)).collect::<Vec<_>>().join(" and ")),
            Cond::Or(x) => format!("({})", x.iter().map(|y| self.describe_vals(y)).collect::<Vec<_>>().join(" or ")),
            Cond::Not(x) => format!("not {}", self.describe_vals(x)), Cond::Bool(b) => b.to_string(),
        };
        if s.len() > 400 { format!("{}…", s.chars().take(400).collect::<String>()) } else { s }
    }
    /// the unit's wall-clock budget also bounds the engine's own work (term construction, normal forms), not only the branching:
    /// checked every 1024 calls; past the deadline the path is abandoned like any other budget overrun
    fn tick(&self) {
        let t = self.ticks.get().wrapping_add(1);
        self.ticks.set(t);
        if t % 1024 == 0 && self.mode == Mode::Symbolic { if let Some(d) = self.deadline { if Instant::now() > d + std::time::Duration::from_secs(5) { std::panic::panic_any(EngineAbort("budget: unit time budget exhausted".into())); } } }
    }
    pub fn mk(&mut self, n: Node) -> u32 {
        self.tick();
        if let Some(&i) = self.cons.get(&n) { return i; }
        let i = self.nodes.len() as u32;
        let (def, deps, nd): (Option<String>, [u32; 2], u8) = match &n {
            Node::Const(r) => (Some(rat_smt(r)), [0, 0], 0),
            Node::NaN | Node::PInf | Node::NInf | Node::Var(_) => (None, [0, 0], 0),
            Node::Add(a, b) => (Some(format!("(+ n{} n{})", a, b)), [*a, *b], 2),
            Node::Sub(a, b) => (Some(format!("(- n{} n{})", a, b)), [*a, *b], 2),
            Node::Mul(a, b) => (Some(format!("(* n{} n{})", a, b)), [*a, *b], 2),
            Node::Div(a, b) => (Some(format!("(/ n{} n{})", a, b)), [*a, *b], 2),
            Node::Neg(a) => (Some(format!("(- n{})", a)), [*a, 0], 1),
            Node::Sqrt(a) | Node::Uf(_, a) => (None, [*a, 0], 1),
        };
        let nl_self = match &n {
            Node::Mul(a, b) => self.konst(*a).is_none() && self.konst(*b).is_none(),
            Node::Div(_, b) => self.konst(*b).is_none(),
            Node::Sqrt(_) => true,
            _ => false,
        };
        let nl = nl_self || deps[..nd as usize].iter().any(|d| self.nl[*d as usize]);
        // declared to the solver lazily, when a query first mentions the node (see `declare_for`): most nodes of a long run — the
        // exact coefficient products of a recursive filter run to tens of thousands of bits — never reach a query
        self.defs.push(match def {
            Some(d) => format!("(define-fun n{} () Real {})", i, d),
            None => format!("(declare-const n{} Real)", i),
        });
        self.declared.push(false);
        let hd = match &n { Node::Div(_, b) if self.konst(*b).is_none() => true, Node::Sqrt(_) | Node::Uf(..) => false, _ => deps[..nd as usize].iter().any(|d| self.hd[*d as usize]) };
        self.hd.push(hd);
        self.nl.push(nl);
        self.deps.push(deps);
        self.ndeps.push(nd);
        self.nodes.push(n.clone());
        self.cons.insert(n, i);
        i
    }
    pub fn konst(&self, i: u32) -> Option<&BigRational> {
        if let Node::Const(r) = &self.nodes[i as usize] { Some(r) } else { None }
    }
    pub fn special(&self, i: u32) -> bool {
        matches!(self.nodes[i as usize], Node::NaN | Node::PInf | Node::NInf)
    }
    pub fn var(&mut self, name: &str) -> u32 {
        let vi = if let Some(&v) = self.var_ids.get(name) { v } else {
            let v = self.var_names.len() as u32;
            self.var_names.push(name.to_string());
            self.var_ids.insert(name.to_string(), v);
            v
        };
        self.mk(Node::Var(vi))
    }

    // ---- lowering of conditions -------------------------------------------------------
    fn cmp_special(&self, a: u32, b: u32) -> Option<std::cmp::Ordering> {
        // total order on non-NaN specials/constants when at least one side is special
        use std::cmp::Ordering::*;
        let rank = |n: &Node| match n { Node::NInf => Some(-1), Node::PInf => Some(1), Node::NaN => None, _ => Some(0) };
        let (ra, rb) = (rank(&self.nodes[a as usize])?, rank(&self.nodes[b as usize])?);
        if ra == 0 && rb == 0 { return None; }
        Some(ra.cmp(&rb)).map(|o| if ra == rb { Equal } else { o })
    }
    /// lower an atom `a op b`; Ok(bool) if decided without the solver
    fn atom(&self, op: u8, a: u32, b: u32) -> Result<bool, String> {
        // op: 0 '<', 1 '<=', 2 '='
        let na = &self.nodes[a as usize];
        let nb = &self.nodes[b as usize];
        if matches!(na, Node::NaN) || matches!(nb, Node::NaN) { return Ok(false); }
        if self.special(a) || self.special(b) {
            let o = self.cmp_special(a, b).unwrap();
            return Ok(match op { 0 => o.is_lt(), 1 => o.is_le(), _ => o.is_eq() });
        }
        if let (Some(x), Some(y)) = (self.konst(a), self.konst(b)) {
            return Ok(match op { 0 => x < y, 1 => x <= y, _ => x == y });
        }
        if a == b { return Ok(op != 0); }
        // flattened linear normal form of a - b over atoms: decided outright if everything cancels
        let (la, lb) = (self.lin(a), self.lin(b));
        let d = Lin::combine(&la, &lb, &-BigRational::one());
        if d.t.is_empty() {
            self.n_lin_decided.set(self.n_lin_decided.get() + 1);
            let z = BigRational::zero();
            return Ok(match op { 0 => d.c0 < z, 1 => d.c0 <= z, _ => d.c0 == z });
        }
        // nonlinear equality: decided outright if both sides expand to the same polynomial (an identity)
        if op == 2 && (self.nl[a as usize] || self.nl[b as usize]) {
            if let (Some(pa), Some(pb)) = (self.poly(a), self.poly(b)) {
                if pa.add(&pb, &-BigRational::one()).m.is_empty() { self.n_poly_decided.set(self.n_poly_decided.get() + 1); return Ok(true); }
            }
        }
        // equality of rational functions: a = Pa/Qa, b = Pb/Qb with every divisor established non-zero on this path (a `Div` node
        // with a symbolic divisor only exists after the branch `divisor == 0` was taken as false), so Pa*Qb - Pb*Qa == 0 identically
        // implies a == b
        if op == 2 && self.rat_ok.get() && (self.hd[a as usize] || self.hd[b as usize]) {
            if let (Some((pa, qa)), Some((pb, qb))) = (self.ratpoly(a), self.ratpoly(b)) {
                if let (Some(l), Some(r)) = (self.poly_mul_cap(&pa, &qb, 4 * RAT_CAP), self.poly_mul_cap(&pb, &qa, 4 * RAT_CAP)) {
                    if l.add(&r, &-BigRational::one()).m.is_empty() { self.n_rat_decided.set(self.n_rat_decided.get() + 1); return Ok(true); }
                }
            }
        }
        let lhs = if d.t.len() == 1 && d.t[0].1.is_one() { format!("n{}", d.t[0].0) } else {
            let mut sum = String::from("(+");
            for (v, c) in &d.t { if c.is_one() { sum.push_str(&format!(" n{}", v)); } else { sum.push_str(&format!(" (* {} n{})", rat_smt(c), v)); } }
            if d.t.len() == 1 { sum.push_str(" 0.0"); }
            sum.push(')');
            sum
        };
        Err(format!("({} {} {})", ["<", "<=", "="][op as usize], lhs, rat_smt(&-d.c0)))
    }
    /// value of a term on the concolic sample point (f64; used only to pick a path, never for a verdict)
    pub fn fval(&self, id: u32) -> f64 {
        if let Some(v) = self.fval_memo.borrow().get(&id) { return *v; }
        let v = match &self.nodes[id as usize] {
            Node::Const(r) => rat_f64(r), Node::NaN => f64::NAN, Node::PInf => f64::INFINITY, Node::NInf => f64::NEG_INFINITY,
            Node::Var(vi) => {
                let mut h: u64 = self.concolic.unwrap_or(0) ^ 0x9E3779B97F4A7C15;
                for b in self.var_names[*vi as usize].bytes() { h = (h ^ b as u64).wrapping_mul(0x100000001B3); h ^= h >> 29; }
                h = h.wrapping_mul(0xD6E8FEB86659FD93); h ^= h >> 32;
                let u = (h >> 11) as f64 / (1u64 << 53) as f64; // [0,1)
                let mag = 0.25 + 0.75 * u;
                // naming convention: inputs whose name starts with "pos" are assumed positive by the harness
                if h & 1 == 1 || self.var_names[*vi as usize].starts_with("pos") { mag } else { -mag }
            }
            Node::Add(a, b) => self.fval(*a) + self.fval(*b), Node::Sub(a, b) => self.fval(*a) - self.fval(*b),
            Node::Mul(a, b) => self.fval(*a) * self.fval(*b), Node::Div(a, b) => self.fval(*a) / self.fval(*b), Node::Neg(a) => -self.fval(*a),
            Node::Sqrt(a) => self.fval(*a).sqrt(),
            Node::Uf(f, a) => { let x = self.fval(*a); match *f { "exp" => x.exp(), "exp2" => x.exp2(), "ln" => x.ln(), "log2" => x.log2(), "log10" => x.log10(), "tanh" => x.tanh(), "sin" => x.sin(), "cos" => x.cos(), "tan" => x.tan(), _ => f64::NAN } }
        };
        self.fval_memo.borrow_mut().insert(id, v);
        v
    }
    fn poly_mul(&self, a: &Poly, b: &Poly) -> Option<Poly> { self.poly_mul_cap(a, b, POLY_CAP) }
    fn poly_mul_cap(&self, a: &Poly, b: &Poly, cap: usize) -> Option<Poly> {
        if a.m.len() * b.m.len() > 4 * cap { return None; }
        let mut out = Poly { m: Default::default() };
        for (ma, ca) in &a.m { self.tick(); for (mb, cb) in &b.m {
            // merge monomials
            let mut mono: Mono = Vec::with_capacity(ma.len() + mb.len());
            let (mut i, mut j) = (0, 0);
            while i < ma.len() || j < mb.len() {
                if j >= mb.len() || (i < ma.len() && ma[i].0 < mb[j].0) { mono.push(ma[i]); i += 1; }
                else if i >= ma.len() || mb[j].0 < ma[i].0 { mono.push(mb[j]); j += 1; }
                else { mono.push((ma[i].0, ma[i].1 + mb[j].1)); i += 1; j += 1; }
            }
            // sqrt(a)^2 -> a  (valid on every path on which the Sqrt node exists: its argument was established non-negative)
            let mut extra: Option<Poly> = None;
            let mut k = 0;
            while k < mono.len() {
                if let Node::Sqrt(arg) = self.nodes[mono[k].0 as usize] { if mono[k].1 >= 2 {
                    let pa = self.poly(arg)?;
                    let times = mono[k].1 / 2;
                    let mut f = match extra.take() { Some(e) => e, None => Poly::konst(BigRational::one()) };
                    for _ in 0..times { f = self.poly_mul(&f, &pa)?; }
                    extra = Some(f);
                    if mono[k].1 % 2 == 1 { mono[k].1 = 1; k += 1; } else { mono.remove(k); }
                    continue;
                } }
                k += 1;
            }
            let c = ca * cb;
            match extra {
                None => { let e = out.m.entry(mono.clone()).or_insert_with(BigRational::zero); *e += c; if e.is_zero() { out.m.remove(&mono); } }
                Some(f) => { let mut base = Poly { m: Default::default() }; base.m.insert(mono, c); let prod = self.poly_mul(&base, &f)?; out.add_assign(&prod, &BigRational::one()); }
            }
            if out.m.len() > cap { return None; }
        } }
        Some(out)
    }
    /// polynomial normal form (None when it grows beyond the cap)
    pub fn poly(&self, id: u32) -> Option<std::rc::Rc<Poly>> {
        if let Some(p) = self.poly_memo.borrow().get(&id) { return p.clone(); }
        self.tick();
        let r: Option<Poly> = (|| Some(match &self.nodes[id as usize] {
            Node::Const(r) => Poly::konst(r.clone()),
            Node::Add(a, b) => self.poly(*a)?.add(&*self.poly(*b)?, &BigRational::one()),
            Node::Sub(a, b) => self.poly(*a)?.add(&*self.poly(*b)?, &-BigRational::one()),
            Node::Neg(a) => self.poly(*a)?.scale(&-BigRational::one()),
            Node::Mul(a, b) => self.poly_mul(&*self.poly(*a)?, &*self.poly(*b)?)?,
            Node::Div(a, b) => match self.konst(*b) { Some(k) if !k.is_zero() => self.poly(*a)?.scale(&(BigRational::one() / k)), _ => Poly::atom(id) },
            _ => Poly::atom(id),
        }))();
        let r = r.filter(|p| p.m.len() <= POLY_CAP).map(std::rc::Rc::new);
        let mut m = self.poly_memo.borrow_mut();
        if m.len() > 4000 { let keep_from = id.saturating_sub(1500); m.retain(|k, _| *k >= keep_from); }
        m.insert(id, r.clone());
        r
    }
    /// rational normal form P/Q (None beyond the cap); divisors are non-zero on every path on which the term exists
    pub fn ratpoly(&self, id: u32) -> Option<(std::rc::Rc<Poly>, std::rc::Rc<Poly>)> {
        use std::rc::Rc;
        if !self.hd[id as usize] { return Some((self.poly(id).filter(|p| p.m.len() <= RAT_CAP)?, Rc::new(Poly::konst(BigRational::one())))); }
        if let Some(p) = self.rat_memo.borrow().get(&id) { return p.clone(); }
        let one = || Rc::new(Poly::konst(BigRational::one()));
        let is_one = |p: &Poly| p.m.len() == 1 && p.m.get(&vec![]).map_or(false, |c| c.is_one());
        let r: Option<(Rc<Poly>, Rc<Poly>)> = (|| Some(match &self.nodes[id as usize] {
            Node::Add(a, b) | Node::Sub(a, b) => {
                let k = if matches!(self.nodes[id as usize], Node::Add(..)) { BigRational::one() } else { -BigRational::one() };
                let ((pa, qa), (pb, qb)) = (self.ratpoly(*a)?, self.ratpoly(*b)?);
                if *qa == *qb { (Rc::new(pa.add(&pb, &k)), qa) }
                else { let (l, r) = (self.poly_mul_cap(&pa, &qb, RAT_CAP)?, self.poly_mul_cap(&pb, &qa, RAT_CAP)?); (Rc::new(l.add(&r, &k)), Rc::new(self.poly_mul_cap(&qa, &qb, RAT_CAP)?)) }
            }
            Node::Neg(a) => { let (pa, qa) = self.ratpoly(*a)?; (Rc::new(pa.scale(&-BigRational::one())), qa) }
            Node::Mul(a, b) => {
                let ((pa, qa), (pb, qb)) = (self.ratpoly(*a)?, self.ratpoly(*b)?);
                (Rc::new(self.poly_mul_cap(&pa, &pb, RAT_CAP)?), if is_one(&qa) { qb } else if is_one(&qb) { qa } else { Rc::new(self.poly_mul_cap(&qa, &qb, RAT_CAP)?) })
            }
            Node::Div(a, b) => {
                let ((pa, qa), (pb, qb)) = (self.ratpoly(*a)?, self.ratpoly(*b)?);
                (if is_one(&qb) { pa } else { Rc::new(self.poly_mul_cap(&pa, &qb, RAT_CAP)?) }, if is_one(&qa) { pb } else { Rc::new(self.poly_mul_cap(&qa, &pb, RAT_CAP)?) })
            }
            _ => (self.poly(id).filter(|p| p.m.len() <= RAT_CAP)?, one()),
        }))();
        let r = r.filter(|(p, q)| p.m.len() <= RAT_CAP && q.m.len() <= RAT_CAP);
        let mut m = self.rat_memo.borrow_mut();
        if m.len() > 4000 { let keep_from = id.saturating_sub(1500); m.retain(|k, _| *k >= keep_from); }
        m.insert(id, r.clone());
        r
    }
    /// approximate linear normal form with rigorous error bounds (memoised)
    pub fn alin(&self, id: u32) -> std::rc::Rc<ALin> {
        if let Some(l) = self.alin_memo.borrow().get(&id) { return l.clone(); }
        let promoted = self.alin_old.borrow_mut().remove(&id);
        if let Some(l) = promoted { self.alin_insert(id, l.clone()); return l; }
        self.tick();
        let atom = |id: u32| ALin { c0: BigInt::zero(), t: vec![(id, BigInt::one() << AGRID)], err: BigInt::zero() };
        let l = match &self.nodes[id as usize] {
            Node::Const(r) => ALin::konst(r),
            Node::Add(a, b) => ALin::combine(&self.alin(*a), &self.alin(*b), false),
            Node::Sub(a, b) => ALin::combine(&self.alin(*a), &self.alin(*b), true),
            Node::Neg(a) => ALin::scale(&self.alin(*a), &-BigRational::one()),
            Node::Mul(a, b) => match (self.konst(*a), self.konst(*b)) { (Some(k), _) => ALin::scale(&self.alin(*b), k), (_, Some(k)) => ALin::scale(&self.alin(*a), k), _ => atom(id) },
            Node::Div(a, b) => match self.konst(*b) { Some(k) if !k.is_zero() => ALin::scale(&self.alin(*a), &(BigRational::one() / k)), _ => atom(id) },
            _ => atom(id),
        };
        let l = std::rc::Rc::new(l);
        self.alin_insert(id, l.clone());
        l
    }
    /// two-generation memo bounded by the total number of stored coefficients (each a ~2600-bit integer): when the young generation
    /// is full it becomes the old one; an entry of the old generation that is used again is promoted. A long recursion that looks back
    /// a whole window (CyberCycle(128)) keeps what it needs, whatever the node ids are.
    fn alin_insert(&self, id: u32, l: std::rc::Rc<ALin>) {
        const YOUNG_CAP: usize = 200_000;
        let w = self.alin_weight.get() + l.t.len() + 1;
        let mut m = self.alin_memo.borrow_mut();
        if w > YOUNG_CAP { let young = std::mem::take(&mut *m); *self.alin_old.borrow_mut() = young; self.alin_weight.set(l.t.len() + 1); }
        else { self.alin_weight.set(w); }
        m.insert(id, l);
    }
    /// linear normal form (memoised; the memo is dropped when it grows large)
    pub fn lin(&self, id: u32) -> std::rc::Rc<Lin> {
        if let Some(l) = self.lin_memo.borrow().get(&id) { return l.clone(); }
        self.tick();
        let atom = |id: u32| Lin { c0: BigRational::zero(), t: vec![(id, BigRational::one())] };
        let l = match &self.nodes[id as usize] {
            Node::Const(r) => Lin { c0: r.clone(), t: vec![] },
            Node::Add(a, b) => Lin::combine(&self.lin(*a), &self.lin(*b), &BigRational::one()),
            Node::Sub(a, b) => Lin::combine(&self.lin(*a), &self.lin(*b), &-BigRational::one()),
            Node::Neg(a) => Lin::scale(&self.lin(*a), &-BigRational::one()),
            Node::Mul(a, b) => match (self.konst(*a), self.konst(*b)) { (Some(k), _) => Lin::scale(&self.lin(*b), k), (_, Some(k)) => Lin::scale(&self.lin(*a), k), _ => atom(id) },
            Node::Div(a, b) => match self.konst(*b) { Some(k) if !k.is_zero() => Lin::scale(&self.lin(*a), &(BigRational::one() / k)), _ => atom(id) },
            _ => atom(id),
        };
        let l = std::rc::Rc::new(l);
        let mut m = self.lin_memo.borrow_mut();
        if m.len() > 3000 { let keep_from = id.saturating_sub(1000); m.retain(|k, _| *k >= keep_from); }
        m.insert(id, l.clone());
        l
    }
    pub fn smt(&self, c: &Cond<Sym>) -> String {
        match c {
            Cond::Lt(a, b) => self.atom(0, a.0, b.0).map(|b| b.to_string()).unwrap_or_else(|s| s),
            Cond::Le(a, b) => self.atom(1, a.0, b.0).map(|b| b.to_string()).unwrap_or_else(|s| s),
            Cond::Eq(a, b) | Cond::Ident(a, b) => self.atom(2, a.0, b.0).map(|b| b.to_string()).unwrap_or_else(|s| s),
            Cond::Lemma(a, b) => { let d = Lin::combine(&self.lin(a.0), &self.lin(b.0), &-BigRational::one()); if d.t.is_empty() { "true".into() } else { let mut sum = String::from("(+ 0.0"); for (v, c) in &d.t { sum.push_str(&format!(" (* {} n{})", rat_smt(c), v)); } sum.push(')'); format!("(= {} {})", sum, rat_smt(&-d.c0)) } }
            Cond::Ne(a, b) => match self.atom(2, a.0, b.0) { Ok(b) => (!b).to_string(), Err(s) => format!("(not {})", s) },
            Cond::And(v) => if v.is_empty() { "true".into() } else { format!("(and {})", v.iter().map(|x| self.smt(x)).collect::<Vec<_>>().join(" ")) },
            Cond::Or(v) => if v.is_empty() { "false".into() } else { format!("(or {})", v.iter().map(|x| self.smt(x)).collect::<Vec<_>>().join(" ")) },
            Cond::Not(x) => format!("(not {})", self.smt(x)),
            Cond::Bool(b) => b.to_string(),
        }
    }
    /// Some(b) if the condition is decided without the solver (all constants / identical terms)
    pub fn concrete(&self, c: &Cond<Sym>) -> Option<bool> {
        match c {
            Cond::Lt(a, b) => self.atom(0, a.0, b.0).ok(),
            Cond::Le(a, b) => self.atom(1, a.0, b.0).ok(),
            Cond::Eq(a, b) | Cond::Ident(a, b) => self.atom(2, a.0, b.0).ok(),
            Cond::Lemma(a, b) => if let (Some(x), Some(y)) = (self.konst(a.0), self.konst(b.0)) { Some(x == y) } else { None },
            Cond::Ne(a, b) => self.atom(2, a.0, b.0).ok().map(|b| !b),
            Cond::And(v) => { let mut all = Some(true); for x in v { match self.concrete(x) { Some(false) => return Some(false), Some(true) => {}, None => all = None } } all }
            Cond::Or(v) => { let mut all = Some(false); for x in v { match self.concrete(x) { Some(true) => return Some(true), Some(false) => {}, None => all = None } } all }
            Cond::Not(x) => self.concrete(x).map(|b| !b),
            Cond::Bool(b) => Some(*b),
        }
    }
    fn ids(&self, c: &Cond<Sym>, out: &mut Vec<u32>) {
        match c {
            Cond::Lt(a, b) | Cond::Le(a, b) | Cond::Eq(a, b) | Cond::Ne(a, b) | Cond::Ident(a, b) | Cond::Lemma(a, b) => { out.push(a.0); out.push(b.0); }
            Cond::And(v) | Cond::Or(v) => for x in v { self.ids(x, out) },
            Cond::Not(x) => self.ids(x, out),
            Cond::Bool(_) => {}
        }
    }
    /// nodes reachable from the conditions: (nonlinear?, variable nodes, sqrt/uf nodes)
    fn closure(&self, conds: &[&Cond<Sym>]) -> (bool, Vec<u32>, Vec<u32>) {
        let mut stack = vec![];
        for c in conds { self.ids(c, &mut stack); }
        let mut need: std::collections::HashSet<u32> = std::collections::HashSet::new();
        let mut vars = vec![];
        let mut nl = false;
        let mut sp: Vec<u32> = vec![];
        while let Some(v) = stack.pop() {
            if !need.insert(v) { continue; }
            nl |= self.nl[v as usize];
            match &self.nodes[v as usize] { Node::Var(_) => vars.push(v), Node::Sqrt(_) | Node::Uf(..) => sp.push(v), Node::Mul(a, b) if a == b => sp.push(v), _ => {} }
            // a node whose whole sub-DAG is linear and variable-free cannot contribute anything further; still walk (cheap)
            for d in &self.deps[v as usize][..self.ndeps[v as usize] as usize] { stack.push(*d); }
        }
        sp.sort_unstable();
        (nl, vars, sp)
    }
    /// axioms for sqrt / uninterpreted-function nodes entering the solver's context
    fn axioms_for(&self, new: &[u32], existing: &[u32]) -> Vec<String> {
        let mut ax = vec![];
        for &i in new {
            match self.nodes[i as usize] {
                // a Sqrt node exists only on paths where its argument was established non-negative (the sqrt() call forks on arg < 0)
                Node::Sqrt(a) => ax.push(format!("(and (>= n{i} 0.0) (= (* n{i} n{i}) n{a}) (= (>= n{a} 1.0) (>= n{i} 1.0)))", a = a, i = i)),
                Node::Mul(a, b) if a == b => ax.push(format!("(>= n{} 0.0)", i)),
                Node::Uf(name, a) => match name {
                    "exp" | "exp2" => { ax.push(format!("(> n{} 0.0)", i)); ax.push(format!("(= (> n{} 0.0) (> n{} 1.0))", a, i)); }
                    "tanh" => ax.push(format!("(and (< n{i} 1.0) (> n{i} (- 1.0)) (= (> n{a} 0.0) (> n{i} 0.0)) (= (= n{a} 0.0) (= n{i} 0.0)) (=> (> n{a} 0.0) (< n{i} n{a})) (=> (< n{a} 0.0) (> n{i} n{a})))", i = i, a = a)),
                    "ln" | "log2" | "log10" => {
                        ax.push(format!("(and (= (> n{a} 1.0) (> n{i} 0.0)) (= (= n{a} 1.0) (= n{i} 0.0)))", i = i, a = a));
                        if name == "ln" {
                            // sound interval facts used by C07/C11 (|fisher| <= ln 199): ln is monotone
                            let hi = rat_smt(&f64_rat(199.0f64.ln()));
                            ax.push(format!("(and (=> (<= n{a} 199.0) (<= n{i} {hi})) (=> (>= n{a} (/ 1.0 199.0)) (>= n{i} (- {hi}))))", a = a, i = i, hi = hi));
                        }
                    }
                    _ => {}
                },
                _ => {}
            }
        }
        // pairwise: sqrt monotone/injective on its domain; Ackermann congruence + monotonicity for the same function
        let pair = |i: u32, j: u32, ax: &mut Vec<String>| {
            match (&self.nodes[i as usize], &self.nodes[j as usize]) {
                (Node::Sqrt(a), Node::Sqrt(b)) => ax.push(format!("(=> (and (>= n{a} 0.0) (>= n{b} 0.0)) (and (= (< n{a} n{b}) (< n{i} n{j})) (= (= n{a} n{b}) (= n{i} n{j}))))", a = a, b = b, i = i, j = j)),
                (Node::Uf(f, a), Node::Uf(g, b)) if f == g => match *f {
                    "exp" | "exp2" | "ln" | "log2" | "log10" | "tanh" => ax.push(format!("(and (= (< n{a} n{b}) (< n{i} n{j})) (= (= n{a} n{b}) (= n{i} n{j})))", a = a, b = b, i = i, j = j)),
                    _ => ax.push(format!("(=> (= n{a} n{b}) (= n{i} n{j}))", a = a, b = b, i = i, j = j)),
                },
                _ => {}
            }
        };
        for (x, &i) in new.iter().enumerate() {
            for &j in existing { pair(j, i, &mut ax); }
            for &j in &new[x + 1..] { pair(i, j, &mut ax); }
        }
        ax
    }
    fn push_pc(&mut self, c: Cond<Sym>) {
        let s = self.smt(&c);
        self.pc_smt.push(s);
        self.pc.push(c);
    }
    /// declare (globally) every node mentioned in `text` as `n<id>`, and everything its definition depends on, in id order
    fn declare_for(&mut self, text: &str) {
        let b = text.as_bytes();
        let mut need: Vec<u32> = vec![];
        let mut i = 0;
        while i < b.len() {
            if b[i] == b'n' && (i == 0 || !(b[i - 1].is_ascii_alphanumeric() || b[i - 1] == b'_' || b[i - 1] == b'.')) {
                let mut j = i + 1; let mut v: u64 = 0;
                while j < b.len() && b[j].is_ascii_digit() { v = v * 10 + (b[j] - b'0') as u64; j += 1; }
                if j > i + 1 && (j == b.len() || !(b[j].is_ascii_alphanumeric() || b[j] == b'_')) && (v as usize) < self.declared.len() && !self.declared[v as usize] { need.push(v as u32); }
                i = j;
            } else { i += 1; }
        }
        if need.is_empty() { return; }
        let mut all: Vec<u32> = vec![];
        while let Some(v) = need.pop() {
            if self.declared[v as usize] { continue; }
            self.declared[v as usize] = true;
            all.push(v);
            for d in 0..self.ndeps[v as usize] as usize { let x = self.deps[v as usize][d]; if !self.declared[x as usize] { need.push(x); } }
        }
        all.sort_unstable();
        for v in all { let d = self.defs[v as usize].clone(); self.solver.declare(&d); }
    }
    /// bring the solver's assertion stack (one push level per path-condition conjunct) in line with the current PC
    fn sync(&mut self) {
        if self.solver_epoch != self.solver.n_killed { self.levels.clear(); self.solver_epoch = self.solver.n_killed; }
        let mut l = 0;
        while l < self.levels.len() && l < self.pc_smt.len() && self.levels[l].smt == self.pc_smt[l] { l += 1; }
        for _ in l..self.levels.len() { self.solver.send("(pop)"); }
        self.levels.truncate(l);
        for i in l..self.pc.len() {
            let (nl, vars, sp) = self.closure(&[&self.pc[i]]);
            let existing: Vec<u32> = self.levels.iter().flat_map(|x| x.special.iter().copied()).collect();
            let newsp: Vec<u32> = sp.into_iter().filter(|n| !existing.contains(n)).collect();
            let ax = self.axioms_for(&newsp, &existing);
            for a in &ax { self.declare_for(a); }
            let pcs = self.pc_smt[i].clone(); self.declare_for(&pcs);
            self.solver.send("(push)");
            for a in &ax { self.solver.send(&format!("(assert {})", a)); }
            self.solver.send(&format!("(assert {})", self.pc_smt[i]));
            self.levels.push(Level { smt: self.pc_smt[i].clone(), nl, special: newsp, vars, axioms: ax });
        }
    }
    /// is `PC ∧ extra` satisfiable?
    pub fn query(&mut self, extra: &[Cond<Sym>], want_model: bool) -> (Sat, Vec<(String, BigRational)>, String) { let t = self.solver.timeout_ms; self.query_t(extra, want_model, t) }
    pub fn query_t(&mut self, extra: &[Cond<Sym>], want_model: bool, nl_timeout_ms: u64) -> (Sat, Vec<(String, BigRational)>, String) {
        self.sync();
        let refs: Vec<&Cond<Sym>> = extra.iter().collect();
        let (nl_e, vars_e, sp_e) = self.closure(&refs);
        let existing: Vec<u32> = self.levels.iter().flat_map(|x| x.special.iter().copied()).collect();
        let newsp: Vec<u32> = sp_e.into_iter().filter(|n| !existing.contains(n)).collect();
        let mut asserts: Vec<String> = self.axioms_for(&newsp, &existing);
        for c in &refs { asserts.push(self.smt(c)); }
        let nl = nl_e || self.levels.iter().any(|l| l.nl);
        let killed = self.solver.n_killed;
        for a in &asserts { self.declare_for(a); }
        if want_model {
            // the variables whose values will be asked for must exist before check-sat (a declaration afterwards discards the model)
            let names: String = self.levels.iter().flat_map(|x| x.vars.iter().copied()).chain(vars_e.iter().copied()).map(|v| format!("n{} ", v)).collect();
            self.declare_for(&names);
        }
        let r = self.solver.check_t(&asserts, nl, nl_timeout_ms);
        if self.solver.n_killed != killed { self.levels.clear(); self.solver_epoch = self.solver.n_killed; }
        // the full query (for evidence samples and replay files): path condition + this query
        self.solver.last_query = format!("{}{}", self.pc_smt.iter().map(|s| format!("(assert {})\n", s)).collect::<String>(), self.solver.last_query);
        let mut vars: Vec<u32> = self.levels.iter().flat_map(|x| x.vars.iter().copied()).collect();
        vars.extend(vars_e);
        vars.sort_unstable();
        vars.dedup();
        let mut model = vec![];
        let mut raw = String::new();
        if r == Sat::Sat && want_model {
            let names: Vec<String> = vars.iter().map(|v| format!("n{}", v)).collect();
            raw = self.solver.model(&names);
            let mut parsed = parse_model(&raw);
            let missing: Vec<String> = names.iter().filter(|n| !parsed.iter().any(|(k, _)| k == *n)).cloned().collect();
            if !missing.is_empty() {
                let raw2 = self.solver.model_decimal(&missing);
                parsed.extend(parse_model(&raw2));
                raw.push_str(&raw2);
            }
            for (nm, val) in parsed {
                if let Ok(id) = nm[1..].parse::<u32>() {
                    if let Node::Var(vi) = self.nodes[id as usize] { model.push((self.var_names[vi as usize].clone(), val)); }
                }
            }
        }
        self.solver.pop();
        (r, model, raw)
    }

    /// decide a symbolic branch condition (canonical atom: op 0 '<', 2 '=')
    pub fn branch(&mut self, op: u8, a: u32, b: u32) -> bool {
        match self.atom(op, a, b) { Ok(v) => return v, Err(_) => {} }
        if let Some(&d) = self.cache.get(&(op, a, b)) { return d; }
        let cond = if op == 0 { Cond::Lt(Sym(a), Sym(b)) } else { Cond::Eq(Sym(a), Sym(b)) };
        let idx = self.decisions.len();
        if idx >= self.max_decisions { std::panic::panic_any(EngineAbort(format!("more than {} symbolic decisions on one path", self.max_decisions))); }
        if let Some(d) = self.deadline { if idx >= self.prefix.len() && Instant::now() > d { std::panic::panic_any(EngineAbort("budget: unit time budget exhausted".into())); } }
        if self.concolic.is_some() {
            let (x, y) = (self.fval(a), self.fval(b));
            let d = if op == 0 { x < y } else { x == y };
            self.decisions.push(d);
            self.trace.push(d as u8);
            self.cache.insert((op, a, b), d);
            self.push_pc(if d { cond } else { Cond::not(cond) });
            return d;
        }
        let (d, forced) = if idx < self.prefix.len() { (self.prefix[idx] & 1 == 1, self.prefix[idx] >= 2) } else {
            let bt = self.branch_nl_timeout_ms;
            let (t, _, _) = self.query_t(&[cond.clone()], false, bt);
            if t == Sat::Unsat { (false, true) } else {
                let (f, _, _) = self.query_t(&[Cond::not(cond.clone())], false, bt);
                if t == Sat::Unknown || f == Sat::Unknown { self.stats.unknown_branches += 1; }
                match f {
                    Sat::Unsat => (true, true),
                    _ => { let mut alt = self.trace.clone(); alt.push(0); self.pending.push(alt); (true, false) }
                }
            }
        };
        self.decisions.push(d);
        self.trace.push((d as u8) | if forced { 2 } else { 0 });
        self.cache.insert((op, a, b), d);
        // immediate consequences for the other atoms over the same pair (saves nonlinear queries such as  A > 0 |- A != 0)
        if op == 0 && d { self.cache.insert((2, a, b), false); self.cache.insert((2, b, a), false); self.cache.insert((0, b, a), false); }
        if op == 2 && d { self.cache.insert((0, a, b), false); self.cache.insert((0, b, a), false); self.cache.insert((2, b, a), true); }
        if op == 2 && !d { self.cache.insert((2, b, a), false); }
        // a forced decision is implied by the path condition; keep it only when it is linear (cheap, and it helps
        // the solver), drop it when nonlinear (it would turn every later query on this path into a nonlinear one)
        let keep = !forced || { let (nl, _, _) = self.closure(&[&cond]); !nl };
        if keep { self.push_pc(if d { cond } else { Cond::not(cond) }); }
        d
    }
    /// does any path-condition conjunct depend on node `v`?
    pub fn pc_mentions(&self, v: u32) -> bool {
        let refs: Vec<&Cond<Sym>> = self.pc.iter().collect();
        let (_, vars, _) = self.closure(&refs);
        vars.contains(&v)
    }
    /// register variable node `v` as ranging over [-1,1]: asserted once, globally (scope 0), for the whole unit —
    /// every path of the unit makes the same assumption about the same input, so it is not a path-condition conjunct
    pub fn declare_unit_box(&mut self, v: u32) {
        if self.unit_box.insert(v) {
            // assertions are scoped: drop to scope 0 first (the path-condition levels are re-pushed by the next sync)
            for _ in 0..self.levels.len() { self.solver.send("(pop)"); }
            self.levels.clear();
            self.declare_for(&format!("n{}", v));
            self.solver.declare(&format!("(assert (and (<= n{v} 1.0) (>= n{v} (- 1.0))))", v = v));
        }
    }
    /// the concolic sample as a model (exact rational value of each f64 sample)
    pub fn sample_model(&self) -> Vec<(String, BigRational)> {
        (0..self.var_names.len()).filter_map(|vi| self.cons.get(&Node::Var(vi as u32)).map(|id| (self.var_names[vi].clone(), f64_rat(self.fval(*id))))).collect()
    }
    fn holds_on_sample(&self, c: &Cond<Sym>) -> bool {
        match c {
            Cond::Lt(a, b) => self.fval(a.0) < self.fval(b.0), Cond::Le(a, b) => self.fval(a.0) <= self.fval(b.0),
            Cond::Eq(a, b) | Cond::Ident(a, b) => self.fval(a.0) == self.fval(b.0), Cond::Lemma(..) => true, Cond::Ne(a, b) => self.fval(a.0) != self.fval(b.0),
            Cond::And(v) => v.iter().all(|x| self.holds_on_sample(x)), Cond::Or(v) => v.iter().any(|x| self.holds_on_sample(x)),
            Cond::Not(x) => !self.holds_on_sample(x), Cond::Bool(b) => *b,
        }
    }
    pub fn assume(&mut self, c: Cond<Sym>) {
        if self.concolic.is_some() && self.mode == Mode::Symbolic {
            if !self.holds_on_sample(&c) { std::panic::panic_any(EngineAbort("assumption is false on the concolic sample".into())); }
            if self.concrete(&c) != Some(true) { self.push_pc(c); }
            return;
        }
        match self.concrete(&c) {
            Some(true) => {}
            Some(false) => std::panic::panic_any(EngineAbort("assumption is false on this path".into())),
            None => {
                self.push_pc(c);
                // under a replayed decision prefix the parent path already established feasibility
                if self.decisions.len() < self.prefix.len() { return; }
                // keep the path feasible: an infeasible assumption ends the path (vacuity is tracked by the caller)
                let (r, _, _) = self.query(&[], false);
                if r == Sat::Unsat { std::panic::panic_any(EngineAbort("assumption infeasible on this path".into())); }
            }
        }
    }
    /// re-ask the last obligation query (path condition + axioms + negated obligation) to cvc5 as a self-contained script
    fn cross_check(&mut self, label: &str, z3_answer: Sat) {
        if z3_answer == Sat::Unknown { return; }
        let mut script = String::from("(set-logic ALL)\n");
        for d in self.solver.decls_text() { script.push_str(&d); script.push('\n'); }
        for l in &self.levels { for a in &l.axioms { script.push_str(&format!("(assert {})\n", a)); } script.push_str(&format!("(assert {})\n", l.smt)); }
        script.push_str(&self.solver.last_query_only);
        script.push_str("(check-sat)\n");
        let path = format!("/tmp/symcheck-cc-{}-{:?}.smt2", std::process::id(), std::thread::current().id()).replace(['(', ')'], "");
        if std::fs::write(&path, &script).is_err() { return; }
        let out = Command::new("cvc5").args(["--lang", "smt2", "--tlimit=3000", &path]).output();
        let _ = std::fs::remove_file(&path);
        self.crosscheck.0 += 1;
        let ans = out.ok().map(|o| String::from_utf8_lossy(&o.stdout).lines().next().unwrap_or("").trim().to_string()).unwrap_or_default();
        let theirs = match ans.as_str() { "sat" => Sat::Sat, "unsat" => Sat::Unsat, _ => Sat::Unknown };
        if theirs == Sat::Unknown { self.crosscheck.2 += 1; }
        else if theirs == z3_answer { self.crosscheck.1 += 1; }
        else { self.crosscheck.3.push(format!("{}: z3 {:?} vs cvc5 {:?}", label, z3_answer, theirs)); self.stats.inconclusive.push(format!("{} (solver disagreement: z3 {:?}, cvc5 {:?})", label, z3_answer, theirs)); }
    }
    /// `a == b` as a fact for the solver, provided the engine can establish it as a polynomial identity by expansion
    pub fn lemma_eq(&self, a: Sym, b: Sym) -> Option<Cond<Sym>> {
        if a.0 == b.0 { return None; }
        let (pa, pb) = (self.poly(a.0)?, self.poly(b.0)?);
        if pa.add(&pb, &-BigRational::one()).m.is_empty() { Some(Cond::Lemma(a, b)) } else { None }
    }
    /// several formulations of the same obligation, cheapest (sufficient conditions, e.g. on destructured sub-terms) first and the
    /// general one last: discharged as soon as one is proven; only the general one can yield a violation
    pub fn oblige_alt(&mut self, label: &str, mut alts: Vec<Cond<Sym>>) {
        let general = alts.pop().expect("at least one formulation");
        if self.mode != Mode::Symbolic || !self.check_obligations { return self.oblige(label, general); }
        if self.decisions.len() < self.prefix.len() { return; }
        for a in alts {
            self.rat_ok.set(true);
            let conc = self.concrete(&a);
            self.rat_ok.set(false);
            match conc { Some(true) => { self.stats.obligations += 1; self.stats.discharged += 1; return; } Some(false) => continue, None => {} }
            let (r, _, _) = self.query(&[Cond::not(a)], false);
            if r == Sat::Unsat { self.stats.obligations += 1; self.stats.discharged += 1; return; }
        }
        self.oblige(label, general)
    }
    pub fn oblige(&mut self, label: &str, c: Cond<Sym>) {
        self.rat_ok.set(true);
        self.oblige_inner(label, c);
        self.rat_ok.set(false);
    }
    fn oblige_inner(&mut self, label: &str, c: Cond<Sym>) {
        if !self.check_obligations { return; }
        // Stated before the replayed decision prefix is exhausted: the parent path stated the same
        // obligation under the identical path condition and it was decided there.
        if self.mode == Mode::Symbolic && self.decisions.len() < self.prefix.len() { return; }
        self.stats.obligations += 1;
        if let Cond::Ident(a, b) = &c { if a.0 == b.0 { self.stats.discharged += 1; self.stats.discharged_ident += 1; return; } }
        let conc = if self.mode == Mode::Exact && self.approx { self.concrete_tol(&c, false).or_else(|| self.concrete(&c)) } else { self.concrete(&c) };
        match conc {
            Some(true) => { self.stats.discharged += 1; return; }
            Some(false) if self.mode == Mode::Exact => {
                self.violations.push(Violation { label: label.into(), kind: "obligation".into(), decisions: self.decisions.clone(), model: vec![], model_raw: String::new(), smt: String::new(), detail: format!("{}{}", self.describe_vals(&c), if self.approx { " (1e-9 tolerance: a sqrt/transcendental of data was approximated)" } else { " (exact rational arithmetic)" }) });
                return;
            }
            Some(false) => {
                // violated for every input on this path: any model of the PC is a witness
                let (r, model, raw) = self.query(&[], true);
                let smt = self.solver.last_query.clone();
                let mut model = model;
                if self.concretised { for (k, v) in self.sample_model() { if !model.iter().any(|(n, _)| *n == k) { model.push((k, v)); } } }
                if r == Sat::Sat || self.pc.is_empty() {
                    self.violations.push(Violation { label: label.into(), kind: "obligation".into(), decisions: self.decisions.clone(), model, model_raw: raw, smt, detail: format!("obligation is concretely false on this path: {:?}", self.describe(&c)) });
                } else { self.stats.inconclusive.push(format!("{} (concretely false, PC {:?})", label, r)); }
                return;
            }
            None => {}
        }
        let neg = Cond::not(c.clone());
        let (r, model, raw) = self.query(&[neg], true);
        self.ob_seq += 1;
        if self.crosscheck_every > 0 && (r == Sat::Sat || self.ob_seq % self.crosscheck_every == 1) { self.cross_check(label, r); }
        if self.stats.sample_obligations.len() < 2 {
            let s = self.solver.last_query.clone();
            self.stats.sample_obligations.push(format!("; {} — negation asked with the path condition, expected unsat\n{}", label, s));
        }
        match r {
            Sat::Unsat => { self.stats.discharged += 1; if matches!(c, Cond::Ident(..)) { self.stats.real_equal_only += 1; } }
            Sat::Sat => {
                let smt = self.solver.last_query.clone();
                // if data was concretised on this path, the terms depend on the sample point: replay with the sample values for
                // every input the solver's model does not fix
                let mut model = model;
                if self.concretised { for (k, v) in self.sample_model() { if !model.iter().any(|(n, _)| *n == k) { model.push((k, v)); } } }
                self.violations.push(Violation { label: label.into(), kind: "obligation".into(), decisions: self.decisions.clone(), model, model_raw: raw, smt, detail: self.describe(&c) });
            }
            Sat::Unknown => {
                // along a sampled comparison path there is a concrete point on the path: if the obligation fails there (f64 evaluation of
                // the terms), it is offered to the replay, which decides (exact arithmetic and native f64 against the real code)
                if self.concolic.is_some() && !self.holds_on_sample(&c) {
                    let smt = self.solver.last_query.clone();
                    self.violations.push(Violation { label: label.into(), kind: "obligation".into(), decisions: self.decisions.clone(), model: self.sample_model(), model_raw: "solver: unknown; the path's sample point violates the obligation".into(), smt, detail: self.describe(&c) });
                } else { self.stats.inconclusive.push(label.to_string()) }
            }
        }
    }
    /// |term| <= bound where `term` is a linear form over variables assumed to lie in [-1,1].
    /// The exact coefficients of a long recursive filter are rationals with tens of thousands of bits; the solver is
    /// given the sound relaxation  |sum c^_i x_i + c^_0| <= bound - delta,  c^_i = c_i rounded to 2^-96,
    /// delta >= |c_0 - c^_0| + sum |c_i - c^_i|  (valid because |x_i| <= 1); the coefficients are computed on a 2^-128 grid
    /// with rigorous error bounds (ALin) instead of exactly.  Anything else falls back to the plain obligation.
    pub fn oblige_abs_le_boxed(&mut self, label: &str, term: Sym, bound: BigRational) {
        let plain = |b: &BigRational, me: &mut Ctx| { let bb = Sym(me.mk(Node::Const(b.clone()))); let nb = Sym(me.mk(Node::Const(-b.clone()))); Cond::And(vec![Cond::Le(term, bb), Cond::Le(nb, term)]) };
        if self.mode != Mode::Symbolic || self.special(term.0) { let c = plain(&bound, self); return self.oblige(label, c); }
        if self.decisions.len() < self.prefix.len() { return; }
        let l = self.alin(term.0);
        if l.t.is_empty() || !l.t.iter().all(|(v, _)| self.unit_box.contains(v)) { let c = plain(&bound, self); return self.oblige(label, c); }
        // coefficients on the 2^-AGRID grid, shortened to 2^-96 for the solver; all discarded mass goes into delta
        let cut = AGRID - 96;
        let mut delta = BigRational::new(l.err.clone(), BigInt::one() << AGRID);
        let short = |m: &BigInt| -> (BigRational, BigRational) { let hi: BigInt = (m >> cut) << cut; (BigRational::new(hi.clone(), BigInt::one() << AGRID), BigRational::new((m - hi).abs(), BigInt::one() << AGRID)) };
        let (c0, d0) = short(&l.c0);
        delta += d0;
        let mut mass = c0.abs();
        let mut acc = Sym(self.mk(Node::Const(c0)));
        for (v, m) in &l.t {
            let (r, d) = short(m);
            delta += d;
            if r.is_zero() { continue; }
            mass += r.abs();
            let k = Sym(self.mk(Node::Const(r)));
            let prod = Sym(self.mk(Node::Mul(k.0, *v)));
            acc = Sym(self.mk(Node::Add(acc.0, prod.0)));
        }
        if delta > BigRational::new(BigInt::one(), BigInt::from(1000000)) { self.stats.inconclusive.push(format!("{} (coefficient error bound {:.3e} too large for the relaxation)", label, rat_f64(&delta))); return; }
        let b2 = &bound - &delta;
        let bb = Sym(self.mk(Node::Const(b2.clone())));
        let nb = Sym(self.mk(Node::Const(-b2.clone())));
        let ob = Cond::And(vec![Cond::Le(acc, bb), Cond::Le(nb, acc)]);
        // The maximum of |c0 + sum r_i x_i| over the box is |c0| + sum |r_i| (attained at a corner): when that is within the bound the
        // obligation holds for every boxed input, whatever the path condition. Decided by this norm (counted with the normal-form
        // decisions); the solver is still asked for the first such obligation of a path and every 16th after it, as a check of the
        // norm computation, and always when the norm exceeds the bound (then it must produce the witness).
        if mass <= b2 {
            self.box_seq += 1;
            if self.box_seq % 16 != 1 { self.stats.obligations += 1; self.stats.discharged += 1; self.n_lin_decided.set(self.n_lin_decided.get() + 1); return; }
        }
        // First ask without the path condition: the obligation only involves boxed inputs, so if it holds on the whole
        // box it holds on this path (and the query stays linear even when the path condition is not).
        if !self.pc.is_empty() {
            let (pc, pcs) = (std::mem::take(&mut self.pc), std::mem::take(&mut self.pc_smt));
            let (r, _, _) = self.query(&[Cond::not(ob.clone())], false);
            self.pc = pc; self.pc_smt = pcs;
            if r == Sat::Unsat { self.stats.obligations += 1; self.stats.discharged += 1; return; }
        }
        let nv = self.violations.len();
        self.oblige(label, ob);
        // a `sat` whose model could not be read back (solver restarted at the time limit): the maximiser of a linear form over the
        // box is known in closed form — x_i = sign(c_i) (times the sign of the constant) — and is offered to the replay instead
        if self.violations.len() > nv && self.pc.is_empty() {
            let all_vars = l.t.iter().all(|(v, _)| matches!(self.nodes[*v as usize], Node::Var(_)));
            if all_vars && self.violations[nv].model.is_empty() {
                let s0 = if l.c0.is_negative() { -BigRational::one() } else { BigRational::one() };
                let model: Vec<(String, BigRational)> = l.t.iter().filter(|(_, m)| !m.is_zero()).map(|(v, m)| {
                    let name = match self.nodes[*v as usize] { Node::Var(vi) => self.var_names[vi as usize].clone(), _ => unreachable!() };
                    (name, if m.is_negative() { -s0.clone() } else { s0.clone() })
                }).collect();
                self.violations[nv].model = model;
                self.violations[nv].model_raw = "closed-form maximiser of the linear form over the box [-1,1]^n".into();
            }
        }
    }
    pub fn describe(&self, c: &Cond<Sym>) -> String {
        let s = self.smt(c);
        if s.len() > 300 { format!("{}…", &s[..300]) } else { s }
    }
    /// pretty-print a term (bounded depth) for evidence samples
    pub fn show(&self, i: u32, depth: u32) -> String {
        if depth == 0 { return format!("n{}", i); }
        match &self.nodes[i as usize] {
            Node::Const(r) => if r.is_integer() { r.to_string() } else { format!("{:.6}", rat_f64(r)) },
            Node::NaN => "NaN".into(), Node::PInf => "+Inf".into(), Node::NInf => "-Inf".into(),
            Node::Var(v) => self.var_names[*v as usize].clone(),
            Node::Add(a, b) => format!("({} + {})", self.show(*a, depth - 1), self.show(*b, depth - 1)),
            Node::Sub(a, b) => format!("({} - {})", self.show(*a, depth - 1), self.show(*b, depth - 1)),
            Node::Mul(a, b) => format!("({} * {})", self.show(*a, depth - 1), self.show(*b, depth - 1)),
            Node::Div(a, b) => format!("({} / {})", self.show(*a, depth - 1), self.show(*b, depth - 1)),
            Node::Neg(a) => format!("-{}", self.show(*a, depth - 1)),
            Node::Sqrt(a) => format!("sqrt({})", self.show(*a, depth - 1)),
            Node::Uf(f, a) => format!("{}({})", f, self.show(*a, depth - 1)),
        }
    }
}

// ---- model parsing -------------------------------------------------------------------------
#[derive(Debug)]
enum Sx { A(String), L(Vec<Sx>) }
fn parse_sx(s: &str) -> Vec<Sx> {
    let mut stack: Vec<Vec<Sx>> = vec![vec![]];
    let mut cur = String::new();
    let flush = |cur: &mut String, stack: &mut Vec<Vec<Sx>>| { if !cur.is_empty() { stack.last_mut().unwrap().push(Sx::A(std::mem::take(cur))); } };
    for ch in s.chars() {
        match ch {
            '(' => { flush(&mut cur, &mut stack); stack.push(vec![]); }
            ')' => { flush(&mut cur, &mut stack); let l = stack.pop().unwrap(); if let Some(top) = stack.last_mut() { top.push(Sx::L(l)); } else { stack.push(vec![Sx::L(l)]); } }
            c if c.is_whitespace() => flush(&mut cur, &mut stack),
            c => cur.push(c),
        }
    }
    stack.pop().unwrap_or_default()
}
fn sx_rat(x: &Sx) -> Option<BigRational> {
    match x {
        Sx::A(a) => {
            let a = a.trim_end_matches('?');
            if let Some((ip, fp)) = a.split_once('.') {
                let num = BigInt::parse_bytes(format!("{}{}", ip, fp).as_bytes(), 10)?;
                let den = num::pow(BigInt::from(10), fp.len());
                Some(BigRational::new(num, den))
            } else { BigInt::parse_bytes(a.as_bytes(), 10).map(BigRational::from_integer) }
        }
        Sx::L(l) => match l.as_slice() {
            [Sx::A(op), a] if op == "-" => sx_rat(a).map(|v| -v),
            [Sx::A(op), a, b] if op == "/" => { let (x, y) = (sx_rat(a)?, sx_rat(b)?); if y.is_zero() { None } else { Some(x / y) } }
            [Sx::A(op), a, b] if op == "-" => Some(sx_rat(a)? - sx_rat(b)?),
            [Sx::A(op), a, b] if op == "+" => Some(sx_rat(a)? + sx_rat(b)?),
            [Sx::A(op), a, b] if op == "*" => Some(sx_rat(a)? * sx_rat(b)?),
            _ => None,
        },
    }
}
pub fn parse_model(raw: &str) -> Vec<(String, BigRational)> {
    let mut out = vec![];
    for top in parse_sx(raw) {
        if let Sx::L(pairs) = top {
            for p in pairs {
                if let Sx::L(kv) = p {
                    if let [Sx::A(k), v] = kv.as_slice() {
                        if let Some(r) = sx_rat(v) { out.push((k.clone(), r)); }
                        else if let Sx::L(l) = v {
                            // (root-obj poly k): algebraic number; ask for nothing more, approximate as 0 (replay will tell)
                            let _ = l;
                        }
                    }
                }
            }
        }
    }
    out
}

// ---- constructors ---------------------------------------------------------------------------
pub fn var(name: &str) -> Sym { with(|c| Sym(c.var(name))) }
pub fn cst(r: BigRational) -> Sym { with(|c| Sym(c.mk(Node::Const(r)))) }
pub fn cf(f: f64) -> Sym {
    if f.is_nan() { with(|c| Sym(c.mk(Node::NaN))) }
    else if f == f64::INFINITY { with(|c| Sym(c.mk(Node::PInf))) }
    else if f == f64::NEG_INFINITY { with(|c| Sym(c.mk(Node::NInf))) }
    else { cst(f64_rat(f)) }
}
fn k(s: Sym) -> Option<BigRational> { with(|c| c.konst(s.0).cloned()) }
fn node(s: Sym) -> Node { with(|c| c.nodes[s.0 as usize].clone()) }
pub fn node_of(s: Sym) -> Node { node(s) }
pub fn exact_sqrt_arg(s: Sym) -> Option<Sym> { with(|c| if c.mode == Mode::Exact { c.sqrt_args.get(&s.0).map(|a| Sym(*a)) } else { None }) }
pub fn exact_div_parts(s: Sym) -> Option<(Sym, Sym)> { with(|c| if c.mode == Mode::Exact { c.div_parts.get(&s.0).map(|(a, b)| (Sym(*a), Sym(*b))) } else { None }) }
pub fn konst_of(s: Sym) -> Option<BigRational> { k(s) }
pub fn show(s: Sym) -> String { with(|c| c.show(s.0, 6)) }
fn nan() -> Sym { cf(f64::NAN) }
fn event(e: String) { with(|c| if c.stats.events.len() < 64 { c.stats.events.push(e) }) }

fn zero() -> Sym { cst(BigRational::zero()) }
fn is_zero_const(s: Sym) -> bool { k(s).map_or(false, |x| x.is_zero()) }
/// sign / zero tests of products, quotients, negations and square roots are decomposed into tests of their factors
/// (each usually linear), instead of handing the solver one nonlinear atom:  p*q = 0 <=> p = 0 or q = 0, etc.
fn sign(s: Sym) -> i32 {
    // -1, 0, +1 ; forks on the factors
    match node(s) {
        Node::Mul(p, q) if k(Sym(p)).is_none() && k(Sym(q)).is_none() => { if p == q { return if eq(Sym(p), zero()) { 0 } else { 1 }; } let a = sign(Sym(p)); if a == 0 { 0 } else { a * sign(Sym(q)) } }
        // constant factor / divisor: the sign of the other operand, possibly flipped
        Node::Mul(p, q) if k(Sym(p)).is_some() && decomposable(Sym(q)) => { let c = k(Sym(p)).unwrap(); if c.is_zero() { 0 } else if c.is_positive() { sign(Sym(q)) } else { -sign(Sym(q)) } }
        Node::Mul(p, q) if k(Sym(q)).is_some() && decomposable(Sym(p)) => { let c = k(Sym(q)).unwrap(); if c.is_zero() { 0 } else if c.is_positive() { sign(Sym(p)) } else { -sign(Sym(p)) } }
        Node::Div(p, q) if k(Sym(q)).is_some() && decomposable(Sym(p)) => { let c = k(Sym(q)).unwrap(); if c.is_positive() { sign(Sym(p)) } else { -sign(Sym(p)) } }
        Node::Div(p, q) if k(Sym(q)).is_none() => { let a = sign(Sym(p)); if a == 0 { 0 } else { a * sign(Sym(q)) } }
        Node::Neg(p) => -sign(Sym(p)),
        Node::Sqrt(p) => if eq(Sym(p), zero()) { 0 } else { 1 },
        _ => if lt_raw(s, zero()) { -1 } else if eq_raw(s, zero()) { 0 } else { 1 },
    }
}
fn decomposable(s: Sym) -> bool {
    match node(s) {
        Node::Mul(p, q) => match (k(Sym(p)), k(Sym(q))) { (None, None) => true, (Some(_), None) => decomposable(Sym(q)), (None, Some(_)) => decomposable(Sym(p)), _ => false },
        Node::Div(p, q) => if k(Sym(q)).is_none() { true } else { decomposable(Sym(p)) },
        Node::Sqrt(_) => true, Node::Neg(p) => decomposable(Sym(p)), _ => false,
    }
}
fn lt_raw(a: Sym, b: Sym) -> bool { with(|c| c.branch(0, a.0, b.0)) }
fn eq_raw(a: Sym, b: Sym) -> bool { with(|c| c.branch(2, a.0, b.0)) }
/// strip constant non-zero factors / divisors and negations: returns the core term and whether the sign flipped
fn strip(mut s: Sym) -> (Sym, bool) {
    let mut flip = false;
    loop {
        match node(s) {
            Node::Neg(p) => { s = Sym(p); flip = !flip; }
            Node::Mul(p, q) => match (k(Sym(p)), k(Sym(q))) {
                (Some(c), None) if !c.is_zero() => { if c.is_negative() { flip = !flip; } s = Sym(q); }
                (None, Some(c)) if !c.is_zero() => { if c.is_negative() { flip = !flip; } s = Sym(p); }
                _ => return (s, flip),
            },
            Node::Div(p, q) => match k(Sym(q)) { Some(c) if !c.is_zero() => { if c.is_negative() { flip = !flip; } s = Sym(p); } _ => return (s, flip) },
            _ => return (s, flip),
        }
    }
}
fn lt(a: Sym, b: Sym) -> bool {
    if with(|c| c.concolic.is_none()) {
        // c*A < 0  <=>  A < 0 (c > 0): compare the core term, so that the decision cache and the path condition see one atom
        if is_zero_const(b) && !is_zero_const(a) { let (core, flip) = strip(a); if core.0 != a.0 && k(core).is_none() { return if flip { lt(zero(), core) } else { lt(core, zero()) }; } }
        if is_zero_const(a) && !is_zero_const(b) { let (core, flip) = strip(b); if core.0 != b.0 && k(core).is_none() { return if flip { lt(core, zero()) } else { lt(zero(), core) }; } }
    }
    if with(|c| c.concolic.is_none()) {
        if is_zero_const(b) && decomposable(a) { return sign(a) < 0; }
        if is_zero_const(a) && decomposable(b) { return sign(b) > 0; }
    }
    lt_raw(a, b)
}
fn eq(a: Sym, b: Sym) -> bool {
    if with(|c| c.concolic.is_none()) {
        if is_zero_const(b) && !is_zero_const(a) { let (core, _) = strip(a); if core.0 != a.0 && k(core).is_none() { return eq(core, zero()); } }
        if is_zero_const(a) && !is_zero_const(b) { let (core, _) = strip(b); if core.0 != b.0 && k(core).is_none() { return eq(core, zero()); } }
    }
    if with(|c| c.concolic.is_none()) {
        if is_zero_const(b) && decomposable(a) { return sign_is_zero(a); }
        if is_zero_const(a) && decomposable(b) { return sign_is_zero(b); }
    }
    eq_raw(a, b)
}
fn sign_is_zero(s: Sym) -> bool {
    match node(s) {
        Node::Mul(p, q) if k(Sym(p)).is_none() && k(Sym(q)).is_none() => { if p == q { eq(Sym(p), zero()) } else { eq(Sym(p), zero()) || eq(Sym(q), zero()) } }
        Node::Div(p, q) if k(Sym(q)).is_none() => eq(Sym(p), zero()),
        Node::Mul(p, q) if k(Sym(p)).is_some() => if k(Sym(p)).unwrap().is_zero() { true } else { eq(Sym(q), zero()) },
        Node::Mul(p, q) if k(Sym(q)).is_some() => if k(Sym(q)).unwrap().is_zero() { true } else { eq(Sym(p), zero()) },
        Node::Div(p, _) => eq(Sym(p), zero()),
        Node::Neg(p) | Node::Sqrt(p) => eq(Sym(p), zero()),
        _ => eq_raw(s, zero()),
    }
}

/// IEEE-like arithmetic when at least one operand is NaN/±Inf
fn special_arith(a: Sym, b: Sym, op: u8) -> Sym {
    let (na, nb) = (node(a), node(b));
    if matches!(na, Node::NaN) || matches!(nb, Node::NaN) { return nan(); }
    // sign of an operand: Some(-1|0|1); forks if symbolic
    let sign = |s: Sym, n: &Node| -> i32 {
        match n { Node::PInf => 1, Node::NInf => -1, _ => if lt(s, zero()) { -1 } else if eq(s, zero()) { 0 } else { 1 } }
    };
    let inf = |sg: i32| if sg > 0 { cf(f64::INFINITY) } else { cf(f64::NEG_INFINITY) };
    let ia = matches!(na, Node::PInf | Node::NInf);
    let ib = matches!(nb, Node::PInf | Node::NInf);
    match op {
        0 | 1 => {
            let sb = |n: &Node| -> i32 { let s = if matches!(n, Node::PInf) { 1 } else { -1 }; if op == 1 { -s } else { s } };
            if ia && ib { let (x, y) = (if matches!(na, Node::PInf) { 1 } else { -1 }, sb(&nb)); if x == y { inf(x) } else { nan() } }
            else if ia { a } else { inf(sb(&nb)) }
        }
        2 => { let (x, y) = (sign(a, &na), sign(b, &nb)); if x == 0 || y == 0 { nan() } else { inf(x * y) } }
        _ => {
            if ia && ib { nan() }
            else if ia { let y = sign(b, &nb); inf(sign(a, &na) * if y == 0 { 1 } else { y }) }
            else { zero() } // finite / inf = 0
        }
    }
}

fn bin(a: Sym, b: Sym, op: u8) -> Sym {
    if with(|c| c.special(a.0) || c.special(b.0)) { return special_arith(a, b, op); }
    let (ka, kb) = (k(a), k(b));
    if let (Some(x), Some(y)) = (&ka, &kb) {
        return match op {
            0 => cst(q_add(x, y)), 1 => cst(q_add(x, &-y.clone())), 2 => cst(q_mul(x, y)),
            _ => if y.is_zero() { if x.is_zero() { nan() } else if x.is_positive() { cf(f64::INFINITY) } else { cf(f64::NEG_INFINITY) } } else { let r = cst(x / y); with(|c| if c.mode == Mode::Exact { c.div_parts.insert(r.0, (a.0, b.0)); }); r },
        };
    }
    let isz = |k: &Option<BigRational>| k.as_ref().map_or(false, |x| x.is_zero());
    let is1 = |k: &Option<BigRational>| k.as_ref().map_or(false, |x| x.is_one());
    // only IEEE-exact rewrites (x+0, 0+x, x-0, x*1, 1*x, x/1, 0*x for finite x, x-x for finite x)
    match op {
        0 => { if isz(&ka) { return b; } if isz(&kb) { return a; } }
        1 => { if isz(&kb) { return a; } if a.0 == b.0 { return zero(); } }
        2 => { if isz(&ka) || isz(&kb) { return zero(); } if is1(&ka) { return b; } if is1(&kb) { return a; } }
        _ => {
            if is1(&kb) { return a; }
            if isz(&kb) {
                // symbolic / 0: sign of the dividend decides
                event(format!("division by constant zero: {} / 0", show(a)));
                return if eq(a, zero()) { nan() } else if lt(a, zero()) { cf(f64::NEG_INFINITY) } else { cf(f64::INFINITY) };
            }
            if kb.is_none() {
                if eq(b, zero()) {
                    event(format!("division by zero feasible: {} / {}", show(a), show(b)));
                    return if eq(a, zero()) { nan() } else if lt(a, zero()) { cf(f64::NEG_INFINITY) } else { cf(f64::INFINITY) };
                }
            }
        }
    }
    with(|c| Sym(match op { 0 => c.mk(Node::Add(a.0, b.0)), 1 => c.mk(Node::Sub(a.0, b.0)), 2 => c.mk(Node::Mul(a.0, b.0)), _ => c.mk(Node::Div(a.0, b.0)) }))
}
impl std::ops::Add for Sym { type Output = Sym; fn add(self, o: Sym) -> Sym { let _g = enter(); bin(self, o, 0) } }
impl std::ops::Sub for Sym { type Output = Sym; fn sub(self, o: Sym) -> Sym { let _g = enter(); bin(self, o, 1) } }
impl std::ops::Mul for Sym { type Output = Sym; fn mul(self, o: Sym) -> Sym { let _g = enter(); bin(self, o, 2) } }
impl std::ops::Div for Sym { type Output = Sym; fn div(self, o: Sym) -> Sym { let _g = enter(); bin(self, o, 3) } }
impl std::ops::Rem for Sym { type Output = Sym; fn rem(self, _o: Sym) -> Sym { let _g = enter(); std::panic::panic_any(EngineAbort("unsupported: rem".into())) } }
impl std::ops::Neg for Sym {
    type Output = Sym;
    fn neg(self) -> Sym { let _g = enter();
        if let Some(x) = k(self) { return cst(-x); }
        match node(self) {
            Node::NaN => self, Node::PInf => cf(f64::NEG_INFINITY), Node::NInf => cf(f64::INFINITY),
            Node::Neg(a) => Sym(a),
            _ => with(|c| Sym(c.mk(Node::Neg(self.0)))),
        }
    }
}
impl PartialEq for Sym { fn eq(&self, o: &Sym) -> bool { let _g = enter(); eq(*self, *o) } }
impl PartialOrd for Sym {
    fn partial_cmp(&self, o: &Sym) -> Option<std::cmp::Ordering> { let _g = enter();
        use std::cmp::Ordering::*;
        if with(|c| matches!(c.nodes[self.0 as usize], Node::NaN) || matches!(c.nodes[o.0 as usize], Node::NaN)) { return None; }
        if lt(*self, *o) { Some(Less) } else if eq(*self, *o) { Some(Equal) } else { Some(Greater) }
    }
    fn lt(&self, o: &Sym) -> bool { let _g = enter(); lt(*self, *o) }
    fn gt(&self, o: &Sym) -> bool { let _g = enter(); lt(*o, *self) }
    // a <= b  ==  not (b < a)   (NaN: false)
    fn le(&self, o: &Sym) -> bool { let _g = enter(); if anynan(*self, *o) { false } else { !lt(*o, *self) } }
    fn ge(&self, o: &Sym) -> bool { let _g = enter(); if anynan(*self, *o) { false } else { !lt(*self, *o) } }
}
fn anynan(a: Sym, b: Sym) -> bool { let _g = enter(); with(|c| matches!(c.nodes[a.0 as usize], Node::NaN) || matches!(c.nodes[b.0 as usize], Node::NaN)) }
impl Zero for Sym { fn zero() -> Sym { let _g = enter(); zero() } fn is_zero(&self) -> bool { let _g = enter(); eq(*self, zero()) } }
impl One for Sym { fn one() -> Sym { let _g = enter(); cst(BigRational::one()) } }
impl Num for Sym { type FromStrRadixErr = (); fn from_str_radix(_: &str, _: u32) -> Result<Sym, ()> { let _g = enter(); Err(()) } }
impl ToPrimitive for Sym {
    fn to_i64(&self) -> Option<i64> { let _g = enter(); k(*self).and_then(|r| r.to_integer().to_i64()) }
    fn to_u64(&self) -> Option<u64> { let _g = enter(); k(*self).and_then(|r| r.to_integer().to_u64()) }
    fn to_f64(&self) -> Option<f64> { let _g = enter(); match node(*self) { Node::NaN => Some(f64::NAN), Node::PInf => Some(f64::INFINITY), Node::NInf => Some(f64::NEG_INFINITY), _ => match k(*self) {
        Some(r) => Some(rat_f64(&r)),
        // Code that leaves the generic scalar (converts a data value to f64) cannot be followed symbolically: the value is
        // concretised to its value on the pseudo-random sample point, so execution can continue; the unit is then reported as
        // not exhaustive (what follows holds for that sample only). The unchanged crate never does this with data.
        None => Some(with(|c| { c.stats.events.push(format!("concretised a symbolic value via to_f64(): n{}", self.0)); c.concretised = true; c.fval(self.0) })),
    } } }
}
impl NumCast for Sym {
    fn from<N: ToPrimitive>(n: N) -> Option<Sym> { let _g = enter();
        // integers exactly; floats as the exact rational value of that f64
        if let Some(i) = n.to_i64() { if n.to_f64() == Some(i as f64) { return Some(cst(BigRational::from_integer(BigInt::from(i)))); } }
        n.to_f64().map(cf)
    }
}
fn unsupported(what: &str) -> ! { let _g = enter(); std::panic::panic_any(EngineAbort(format!("unsupported Float method: {}", what))) }
fn uf1(s: Sym, name: &'static str, f: fn(f64) -> f64) -> Sym { let _g = enter();
    if let Some(x) = k(s) { with(|c| if c.mode == Mode::Exact && c.n_inputs > 0 { c.approx = true }); return cf(f(rat_f64(&x))); }
    match node(s) {
        Node::NaN => nan(),
        Node::PInf => cf(f(f64::INFINITY)),
        Node::NInf => cf(f(f64::NEG_INFINITY)),
        _ => with(|c| Sym(c.mk(Node::Uf(name, s.0)))),
    }
}
fn exact_sqrt(r: &BigRational) -> Option<BigRational> { let _g = enter();
    if r.is_negative() { return None; }
    let (n, d) = (r.numer().sqrt(), r.denom().sqrt());
    if &(&n * &n) == r.numer() && &(&d * &d) == r.denom() { Some(BigRational::new(n, d)) } else { None }
}
impl num::Float for Sym {
    fn nan() -> Sym { let _g = enter(); nan() }
    fn infinity() -> Sym { let _g = enter(); cf(f64::INFINITY) }
    fn neg_infinity() -> Sym { let _g = enter(); cf(f64::NEG_INFINITY) }
    fn neg_zero() -> Sym { let _g = enter(); zero() }
    fn min_value() -> Sym { let _g = enter(); cf(f64::MIN) }
    fn min_positive_value() -> Sym { let _g = enter(); cf(f64::MIN_POSITIVE) }
    fn max_value() -> Sym { let _g = enter(); cf(f64::MAX) }
    fn epsilon() -> Sym { let _g = enter(); cf(f64::EPSILON) }
    fn is_nan(self) -> bool { let _g = enter(); matches!(node(self), Node::NaN) }
    fn is_infinite(self) -> bool { let _g = enter(); matches!(node(self), Node::PInf | Node::NInf) }
    fn is_finite(self) -> bool { let _g = enter(); !with(|c| c.special(self.0)) }
    fn is_normal(self) -> bool { let _g = enter(); unsupported("is_normal") }
    fn classify(self) -> std::num::FpCategory { let _g = enter(); unsupported("classify") }
    fn floor(self) -> Sym { let _g = enter(); if let Some(x) = k(self) { cst(x.floor()) } else { unsupported("floor") } }
    fn ceil(self) -> Sym { let _g = enter(); if let Some(x) = k(self) { cst(x.ceil()) } else { unsupported("ceil") } }
    fn round(self) -> Sym { let _g = enter(); if let Some(x) = k(self) { cst(x.round()) } else { unsupported("round") } }
    fn trunc(self) -> Sym { let _g = enter(); if let Some(x) = k(self) { cst(x.trunc()) } else { unsupported("trunc") } }
    fn fract(self) -> Sym { let _g = enter(); if let Some(x) = k(self) { cst(x.fract()) } else { unsupported("fract") } }
    fn abs(self) -> Sym { let _g = enter(); match node(self) { Node::NaN => self, Node::PInf | Node::NInf => cf(f64::INFINITY), _ => if lt(self, zero()) { -self } else { self } } }
    fn signum(self) -> Sym { let _g = enter(); if matches!(node(self), Node::NaN) { return self; } if lt(self, zero()) { -Sym::one() } else { Sym::one() } }
    fn is_sign_positive(self) -> bool { let _g = enter(); !lt(self, zero()) }
    fn is_sign_negative(self) -> bool { let _g = enter(); lt(self, zero()) }
    fn mul_add(self, a: Sym, b: Sym) -> Sym { let _g = enter(); self * a + b }
    fn recip(self) -> Sym { let _g = enter(); Sym::one() / self }
    fn powi(self, n: i32) -> Sym { let _g = enter();
        // f64::powi(x, 2) is x*x exactly; higher powers are repeated products in real arithmetic
        let mut r = Sym::one();
        for _ in 0..n.unsigned_abs() { r = r * self; }
        if n < 0 { Sym::one() / r } else { r }
    }
    fn powf(self, e: Sym) -> Sym { let _g = enter(); if let (Some(x), Some(y)) = (k(self), k(e)) { cf(rat_f64(&x).powf(rat_f64(&y))) } else { unsupported("powf") } }
    fn sqrt(self) -> Sym { let _g = enter();
        if let Some(x) = k(self) { let r = match exact_sqrt(&x) { Some(r) => cst(r), None => { with(|c| if c.mode == Mode::Exact { c.approx = true }); cf(rat_f64(&x).sqrt()) } }; with(|c| if c.mode == Mode::Exact { c.sqrt_args.insert(r.0, self.0); }); return r; }
        match node(self) { Node::NaN | Node::NInf => return nan(), Node::PInf => return self, _ => {} }
        if lt(self, zero()) { event(format!("sqrt of negative feasible: {}", show(self))); return nan(); }
        with(|c| Sym(c.mk(Node::Sqrt(self.0))))
    }
    fn exp(self) -> Sym { let _g = enter(); uf1(self, "exp", f64::exp) }
    fn exp2(self) -> Sym { let _g = enter(); uf1(self, "exp2", f64::exp2) }
    fn ln(self) -> Sym { let _g = enter();
        if k(self).is_none() && !with(|c| c.special(self.0)) {
            if lt(self, zero()) { event(format!("ln of negative feasible: {}", show(self))); return nan(); }
            if eq(self, zero()) { event(format!("ln of zero feasible: {}", show(self))); return cf(f64::NEG_INFINITY); }
        }
        uf1(self, "ln", f64::ln)
    }
    fn log(self, _: Sym) -> Sym { let _g = enter(); unsupported("log") }
    fn log2(self) -> Sym { let _g = enter();
        if k(self).is_none() && !with(|c| c.special(self.0)) {
            if lt(self, zero()) { return nan(); }
            if eq(self, zero()) { return cf(f64::NEG_INFINITY); }
        }
        uf1(self, "log2", f64::log2)
    }
    fn log10(self) -> Sym { let _g = enter(); uf1(self, "log10", f64::log10) }
    fn max(self, o: Sym) -> Sym { let _g = enter(); if lt(self, o) { o } else { self } }
    fn min(self, o: Sym) -> Sym { let _g = enter(); if lt(o, self) { o } else { self } }
    fn abs_sub(self, _: Sym) -> Sym { let _g = enter(); unsupported("abs_sub") }
    fn cbrt(self) -> Sym { let _g = enter(); unsupported("cbrt") }
    fn hypot(self, _: Sym) -> Sym { let _g = enter(); unsupported("hypot") }
    fn sin(self) -> Sym { let _g = enter(); uf1(self, "sin", f64::sin) }
    fn cos(self) -> Sym { let _g = enter(); uf1(self, "cos", f64::cos) }
    fn tan(self) -> Sym { let _g = enter(); uf1(self, "tan", f64::tan) }
    fn asin(self) -> Sym { let _g = enter(); unsupported("asin") }
    fn acos(self) -> Sym { let _g = enter(); unsupported("acos") }
    fn atan(self) -> Sym { let _g = enter(); unsupported("atan") }
    fn atan2(self, _: Sym) -> Sym { let _g = enter(); unsupported("atan2") }
    fn sin_cos(self) -> (Sym, Sym) { let _g = enter(); (self.sin(), self.cos()) }
    fn exp_m1(self) -> Sym { let _g = enter(); unsupported("exp_m1") }
    fn ln_1p(self) -> Sym { let _g = enter(); unsupported("ln_1p") }
    fn sinh(self) -> Sym { let _g = enter(); unsupported("sinh") }
    fn cosh(self) -> Sym { let _g = enter(); unsupported("cosh") }
    fn tanh(self) -> Sym { let _g = enter(); uf1(self, "tanh", f64::tanh) }
    fn asinh(self) -> Sym { let _g = enter(); unsupported("asinh") }
    fn acosh(self) -> Sym { let _g = enter(); unsupported("acosh") }
    fn atanh(self) -> Sym { let _g = enter(); unsupported("atanh") }
    fn integer_decode(self) -> (u64, i16, i8) { let _g = enter(); unsupported("integer_decode") }
}
