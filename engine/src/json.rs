//! Minimal JSON value, writer and parser (no external crates available offline beyond the repo's own).
#[derive(Clone, Debug, PartialEq)]
pub enum J { Null, Bool(bool), Int(i64), Num(f64), Str(String), Arr(Vec<J>), Obj(Vec<(String, J)>) }
impl J {
    pub fn s(x: impl Into<String>) -> J { J::Str(x.into()) }
    pub fn obj(v: Vec<(&str, J)>) -> J { J::Obj(v.into_iter().map(|(k, v)| (k.to_string(), v)).collect()) }
    pub fn arr_s<I: IntoIterator<Item = String>>(v: I) -> J { J::Arr(v.into_iter().map(J::Str).collect()) }
    pub fn get(&self, k: &str) -> Option<&J> { if let J::Obj(v) = self { v.iter().find(|(kk, _)| kk == k).map(|(_, v)| v) } else { None } }
    pub fn as_str(&self) -> Option<&str> { if let J::Str(s) = self { Some(s) } else { None } }
    pub fn as_arr(&self) -> Option<&Vec<J>> { if let J::Arr(s) = self { Some(s) } else { None } }
    pub fn as_i64(&self) -> Option<i64> { match self { J::Int(i) => Some(*i), J::Num(f) => Some(*f as i64), _ => None } }
    pub fn as_f64(&self) -> Option<f64> { match self { J::Int(i) => Some(*i as f64), J::Num(f) => Some(*f), _ => None } }
    pub fn as_bool(&self) -> Option<bool> { if let J::Bool(b) = self { Some(*b) } else { None } }
    pub fn set(&mut self, k: &str, v: J) { if let J::Obj(o) = self { if let Some(e) = o.iter_mut().find(|(kk, _)| kk == k) { e.1 = v } else { o.push((k.to_string(), v)) } } }
    pub fn pretty(&self) -> String { let mut s = String::new(); self.w(&mut s, 0); s.push('\n'); s }
    fn w(&self, o: &mut String, ind: usize) {
        let pad = |o: &mut String, n: usize| for _ in 0..n { o.push(' ') };
        match self {
            J::Null => o.push_str("null"),
            J::Bool(b) => o.push_str(if *b { "true" } else { "false" }),
            J::Int(i) => o.push_str(&i.to_string()),
            J::Num(f) => if f.is_finite() { o.push_str(&format!("{}", f)); if f.fract() == 0.0 && f.abs() < 1e15 && !format!("{}", f).contains('.') { o.push_str(".0") } } else { o.push_str("null") },
            J::Str(s) => esc(s, o),
            J::Arr(v) => {
                if v.is_empty() { o.push_str("[]"); return; }
                o.push_str("[\n");
                for (i, x) in v.iter().enumerate() { pad(o, ind + 1); x.w(o, ind + 1); if i + 1 < v.len() { o.push(',') } o.push('\n'); }
                pad(o, ind); o.push(']');
            }
            J::Obj(v) => {
                if v.is_empty() { o.push_str("{}"); return; }
                o.push_str("{\n");
                for (i, (k, x)) in v.iter().enumerate() { pad(o, ind + 1); esc(k, o); o.push_str(": "); x.w(o, ind + 1); if i + 1 < v.len() { o.push(',') } o.push('\n'); }
                pad(o, ind); o.push('}');
            }
        }
    }
}
fn esc(s: &str, o: &mut String) {
    o.push('"');
    for c in s.chars() {
        match c { '"' => o.push_str("\\\""), '\\' => o.push_str("\\\\"), '\n' => o.push_str("\\n"), '\r' => o.push_str("\\r"), '\t' => o.push_str("\\t"), c if (c as u32) < 0x20 => o.push_str(&format!("\\u{:04x}", c as u32)), c => o.push(c) }
    }
    o.push('"');
}
pub fn parse(s: &str) -> Result<J, String> { let b: Vec<char> = s.chars().collect(); let mut i = 0; let v = val(&b, &mut i)?; ws(&b, &mut i); if i != b.len() { return Err(format!("trailing data at {}", i)); } Ok(v) }
fn ws(b: &[char], i: &mut usize) { while *i < b.len() && b[*i].is_whitespace() { *i += 1 } }
fn val(b: &[char], i: &mut usize) -> Result<J, String> {
    ws(b, i);
    if *i >= b.len() { return Err("eof".into()); }
    match b[*i] {
        '{' => { *i += 1; let mut v = vec![]; loop { ws(b, i); if b.get(*i) == Some(&'}') { *i += 1; break; } let k = match val(b, i)? { J::Str(s) => s, _ => return Err("key".into()) }; ws(b, i); if b.get(*i) != Some(&':') { return Err("colon".into()); } *i += 1; let x = val(b, i)?; v.push((k, x)); ws(b, i); match b.get(*i) { Some(',') => *i += 1, Some('}') => { *i += 1; break; } _ => return Err("obj".into()) } } Ok(J::Obj(v)) }
        '[' => { *i += 1; let mut v = vec![]; loop { ws(b, i); if b.get(*i) == Some(&']') { *i += 1; break; } v.push(val(b, i)?); ws(b, i); match b.get(*i) { Some(',') => *i += 1, Some(']') => { *i += 1; break; } _ => return Err("arr".into()) } } Ok(J::Arr(v)) }
        '"' => { *i += 1; let mut s = String::new(); while *i < b.len() && b[*i] != '"' { if b[*i] == '\\' { *i += 1; match b.get(*i) { Some('n') => s.push('\n'), Some('t') => s.push('\t'), Some('r') => s.push('\r'), Some('u') => { let h: String = b[*i + 1..*i + 5].iter().collect(); s.push(char::from_u32(u32::from_str_radix(&h, 16).map_err(|e| e.to_string())?).unwrap_or('?')); *i += 4; } Some(c) => s.push(*c), None => return Err("esc".into()) } } else { s.push(b[*i]); } *i += 1; } *i += 1; Ok(J::Str(s)) }
        't' => { *i += 4; Ok(J::Bool(true)) }
        'f' => { *i += 5; Ok(J::Bool(false)) }
        'n' => { *i += 4; Ok(J::Null) }
        _ => { let st = *i; while *i < b.len() && (b[*i].is_ascii_digit() || "+-.eE".contains(b[*i])) { *i += 1 } let t: String = b[st..*i].iter().collect(); if let Ok(n) = t.parse::<i64>() { Ok(J::Int(n)) } else { t.parse::<f64>().map(J::Num).map_err(|e| format!("{}: {:?}", e, t)) } }
    }
}
